package main

// xlate.go - translator from a small, explicitly delimited subset of Go to Gallina (design/XLATE.md).
// It is part of the trusted base: keep it short and literal. Anything outside the subset ends the
// translation of that function with an error carrying the source position (never a guess).
//
// Target language: coq/Xlate/GoSem.v. Integers are Z (wrapped to the width of their Go type after every
// operation that can leave it), bool is bool, []byte/string are list N, error is bool (non-nil), a block of
// statements is a term of type [ctl S R] (fall through with the assigned variables / return / panic).

import (
	"bytes"
	"fmt"
	"go/ast"
	"go/constant"
	"go/printer"
	"go/token"
	"go/types"
	"math/big"
	"sort"
	"strings"
)

// xUnit says which function (or which run of top-level statements of it) is translated, and how.
type xUnit struct {
	Name    string   // Coq name of the generated definition
	Dir     string   // package directory below the source root
	Func    string   // "F", or "T.M" for a method of T / *T
	Globals []string // package-level variables the code may read: they become leading parameters
	// slice of the body (optional): the top-level statements From..To, each named by the exact first line of
	// its source text ("^" = the first statement); Outs are the variables handed on; After must be the printed
	// statements that follow.
	From, To string
	Outs     []string
	After    []string
	// writer mode (optional): the receiver is abstracted to the bytes appended to it
	Writer *xWriter
	// receiver-fields mode (optional): the fields recv.f of the (pointer) receiver that the code reads are parameters,
	// those it assigns are returned after the results, in declaration order
	Recv bool
	// oracles (optional): expressions (by printed text) replaced by a parameter of the given Gallina type: values the
	// environment decides (clock, I/O outcome) or that are outside the subset (floating point). At most one use each.
	Oracles map[string]xOracle
	// Ignore: statements (by printed text) that are left out: lock handling (`r.RLock()`, `defer r.RUnlock()`): the
	// translation is of the sequential body; that it runs atomically is the model's assumption.
	Ignore []string
	// Funcs: pure functions the code calls through values outside the subset (an interface method such as
	// t.server.protocol.ParsePackage): callee text -> a function parameter of the given Gallina type, applied to the
	// translated arguments; several results are a tuple
	Funcs map[string]xOracle
	// Reads: pure read paths (identifiers and member selections only, e.g. msg.Resp.IRet) through values outside the
	// subset: each becomes a parameter of the given Gallina type and may be used any number of times. The translator
	// checks that the statements neither assign to such a path or a prefix of it nor hand a prefix of it to a call.
	Reads map[string]xOracle
	// ErrVals: the error results are values, not just nil / non-nil: the name of the package's struct type T whose
	// pointer is returned as an error. error is (go_error T): nil = GoErrNil, errors.New(s) = GoErrNew s, &T{..} = GoErrVal {|..|}
	ErrVals string
	// StrMaps: a map with string keys is the list of its insertions in order (m[k] = v appends (k, v); a later binding of
	// a key overrides an earlier one for any reader of the list); lookups, len and iteration stay outside the subset
	StrMaps bool
	// LoopBody: the statement slice is part of the body of a `for { }` loop that is not translated itself: the slice
	// falls through (Next outs), leaves the loop (break: Return (inl (inl outs))), starts the next round (continue:
	// Return (inl (inr outs))) or returns from the function (Return (inr results))
	LoopBody bool
	// NilIsEmpty: slice variables for which the unit claims "nil exactly when empty" (an invariant of the surrounding code,
	// stated in the unit's documentation): v == nil / v != nil is len(v) == 0 / != 0. Any other comparison of a slice with
	// nil is rejected (the subset does not tell nil from empty)
	NilIsEmpty []string
	// Deep: the statement slice From..To is looked for in nested statement lists as well (it must be unique)
	Deep bool
	// Methods: pure methods without arguments of values of the subset (e.String()) that the code calls: each becomes a
	// function parameter of the given Gallina type, applied to the translated receiver
	Methods map[string]xOracle
	// Fresh: variables of the function that a statement slice receives as parameters and appends to; the rule that
	// makes append act on a value (only ever assigned zero / make / literal / append to itself) is checked over the
	// whole function for them
	Fresh []string
	// Errs: calls (by printed callee) that yield a non-nil error whatever their arguments (errors.New, fmt.Errorf)
	Errs map[string]bool
	// state mode (optional, xlate_state.go): the receiver is abstracted to a state value threaded through the code
	State *xStateSpec
	// Fuel: the unit takes a fuel argument (nat) and hands it to the fuel units it calls. Units of one Group call each
	// other recursively: they are emitted as one mutual Fixpoint that spends one unit of fuel per call (none left: Panic).
	Fuel  bool
	Group string
}

type xOracle struct{ Name, Type string }

// xWriter: calls that append to the receiver's buffer. Keys are the printed callee expressions.
type xWriter struct {
	Prims map[string]xPrim  // primitive appends: GoSem function of the selected arguments; they return a nil error
	Calls map[string]string // methods translated as units of their own: callee text -> Coq name
	Type  string            // Gallina type of what is accumulated ("list N" when empty: the bytes written)
}

func (w *xWriter) typ() string {
	if w.Type != "" {
		return w.Type
	}
	return "list N"
}

type xPrim struct {
	Coq  string
	Args []int
}

type xErr struct {
	pos token.Position
	msg string
}

type xl struct {
	fset     *token.FileSet
	info     *types.Info
	pkg      *types.Package
	unit     *xUnit
	names    map[types.Object]string
	used     map[string]bool
	records  map[string]*types.Named // struct types used: emitted as Records
	recOrd   *[]string
	consts   map[string]string // named integer constants used: emitted as Definitions
	constOrd *[]string
	retType  string // Coq type of the function's results
	nres     int
	resTypes []types.Type
	recv     types.Object        // receiver variable in receiver-fields mode
	recvOut  []*types.Var        // receiver fields the code assigns
	oracleAt map[string]ast.Node // oracle text -> the one node it replaces
	loops    int
	lo, hi   token.Pos  // extent of the translated statements
	body     []ast.Stmt // the translated statements
	tmp      int
	// state mode
	xpkg       *xPkg
	ld         *xLoader
	inRecord   int // computing the type / zero value of a record member
	units      []xUnit
	ptrParam   map[types.Object]bool // pointer parameters: in/out values
	ptrOrder   []*types.Var
	isParam    map[*types.Var]bool
	paramNames []string     // Gallina names of the unit's parameters after fuel, in order (rd last)
	namedRes   []*types.Var // named results (variables; a bare return yields them)
	loopCont   bool         // the enclosing `for { }` is a go_loop: continue is the next round
	inLoop     bool         // inside the `for { }` of a fuel unit
	loopState  string
	freshDone  map[*types.Var]bool
	fnBody     []ast.Stmt              // the whole function body (freshness of slice parameters)
	inLambda   bool                    // inside the comparator of sort.Slice: a plain boolean function
	sortVar    types.Object            // the slice being sorted
	sortIdx    map[types.Object]string // the comparator's index parameters -> the names of the two elements
}

// identifiers the generated text uses itself; a Go variable of such a name gets a trailing underscore
var xReserved = strings.Fields(`ctl Next Return Panic bindc go_call wrapU wrapS go_len go_nth go_in_range go_slice
 go_slice_ok go_bytes_eqb go_be_u16 go_be_u32 go_be_u64 go_emit_u8 go_emit_u16 go_emit_u32 go_emit_u64 go_emit_bytes go_range go_count go_map_get go_map_set go_make go_iter rd fuel inl inr go_atomic_cas32 go_atomic_add32 go_search go_search_ok Some None go_f32_to_f64 go_bytes_ltb go_sort_by go_count_down a__ b__ go_loop go_copy go_deliver go_smap_put go_arm go_tag
 andb orb negb implb true false tt nil cons list unit bool Z N nat fst snd pair Bool eqb
 fun let in if then else match with end as return forall exists fix cofix Type Prop Set struct where at using for IF
 Definition Fixpoint Record Lemma Theorem out st`)

func (x *xl) fail(n ast.Node, f string, a ...interface{}) {
	if n == nil {
		panic(xErr{token.Position{}, fmt.Sprintf(f, a...)})
	}
	panic(xErr{x.fset.Position(n.Pos()), fmt.Sprintf(f, a...)})
}

func (x *xl) src(n ast.Node) string {
	var b bytes.Buffer
	printer.Fprint(&b, x.fset, n)
	return b.String()
}

// ---------- types ----------

// intType: width and signedness of an integer type (int, uint are 64 bits: checked in xlateMain)
func xIntType(t types.Type) (w int, signed, ok bool) {
	b, isB := t.Underlying().(*types.Basic)
	if !isB {
		return
	}
	switch b.Kind() {
	case types.Int8:
		return 8, true, true
	case types.Int16:
		return 16, true, true
	case types.Int32:
		return 32, true, true
	case types.Int64, types.Int:
		return 64, true, true
	case types.Uint8:
		return 8, false, true
	case types.Uint16:
		return 16, false, true
	case types.Uint32:
		return 32, false, true
	case types.Uint64, types.Uint:
		return 64, false, true
	}
	return
}

func xIsBool(t types.Type) bool {
	b, ok := t.Underlying().(*types.Basic)
	return ok && b.Info()&types.IsBoolean != 0
}
func xIsString(t types.Type) bool {
	b, ok := t.Underlying().(*types.Basic)
	return ok && b.Info()&types.IsString != 0
}
func xIsBytes(t types.Type) bool {
	if xIsString(t) {
		return true
	}
	s, ok := t.Underlying().(*types.Slice)
	if !ok {
		return false
	}
	w, sg, ok := xIntType(s.Elem())
	return ok && w == 8 && !sg
}
func xIsError(t types.Type) bool { return t.String() == "error" }

// errRecord: the Record of the struct type named by the unit's ErrVals
func (x *xl) errRecord(n ast.Node) string {
	tn, ok := x.pkg.Scope().Lookup(x.unit.ErrVals).(*types.TypeName)
	if !ok {
		x.fail(n, "error struct type %s not found in the package", x.unit.ErrVals)
	}
	nm, ok := tn.Type().(*types.Named)
	if !ok {
		x.fail(n, "%s is not a named struct type", x.unit.ErrVals)
	}
	return x.record(n, nm)
}

func (x *xl) typeOf(e ast.Expr) types.Type {
	t := x.info.TypeOf(e)
	if t == nil || t == types.Typ[types.Invalid] {
		x.fail(e, "no type information for %s (it depends on a package the translator does not load)", x.src(e))
	}
	return t
}

// coqType: the Gallina type that represents values of the Go type t
// xIsFloat: float32 (32) or float64 (64): represented by their IEEE bit patterns; only moved around, converted
// to / from bits, widened (float64(f32)) and set to 0 - no arithmetic, no comparison
func xIsFloat(t types.Type) int {
	if b, ok := t.Underlying().(*types.Basic); ok {
		switch b.Kind() {
		case types.Float32:
			return 32
		case types.Float64:
			return 64
		}
	}
	return 0
}

func (x *xl) coqType(n ast.Node, t types.Type) string {
	if _, _, ok := xIntType(t); ok {
		return "Z"
	}
	if xIsFloat(t) != 0 {
		return "Z"
	}
	switch {
	case xIsBool(t):
		return "bool"
	case xIsBytes(t):
		return "(list N)"
	case xIsError(t):
		if x.unit.ErrVals != "" {
			return "(go_error " + x.errRecord(n) + ")"
		}
		return "bool"
	}
	if s, ok := t.Underlying().(*types.Slice); ok {
		return "(list " + x.coqType(n, s.Elem()) + ")"
	}
	if m, ok := t.Underlying().(*types.Map); ok { // integer-keyed maps: association lists (iteration is outside the subset)
		if _, _, ok := xIntType(m.Key()); ok {
			return "(list (Z * " + x.coqType(n, m.Elem()) + "))"
		}
		if xIsBytes(m.Key()) && (x.inRecord > 0 || (x.unit != nil && x.unit.StrMaps)) { // always as a record member; as a variable only with StrMaps
			return "(list ((list N) * " + x.coqType(n, m.Elem()) + "))"
		}
	}
	if nm, ok := t.(*types.Named); ok {
		if _, ok := nm.Underlying().(*types.Struct); ok {
			return x.record(n, nm)
		}
	}
	x.fail(n, "type %s is outside the subset", t)
	return ""
}

func (x *xl) record(n ast.Node, nm *types.Named) string {
	name := "go_" + nm.Obj().Pkg().Name() + "_" + nm.Obj().Name()
	if _, ok := x.records[name]; !ok {
		x.records[name] = nm
		st := nm.Underlying().(*types.Struct)
		for _, f := range x.recFields(st) { // field types first (nested records are emitted before their user)
			x.memberType(n, f.Type())
		}
		*x.recOrd = append(*x.recOrd, name)
	}
	return name
}

// recFields: the fields of a struct that the generated Record has: those whose type is in the subset (a field of
// another type - a map with string keys, a channel - is left out; any access to it is rejected)
func (x *xl) recFields(st *types.Struct) []*types.Var {
	var fs []*types.Var
	x.inRecord++
	defer func() { x.inRecord-- }()
	for i := 0; i < st.NumFields(); i++ {
		if x.translatable(st.Field(i).Type()) {
			fs = append(fs, st.Field(i))
		}
	}
	return fs
}

// structVar: e is v.F for a variable v of a named struct type (not a pointer): v and the field
func (x *xl) structVar(e ast.Expr) (*types.Var, *types.Var) {
	se, ok := e.(*ast.SelectorExpr)
	if !ok {
		return nil, nil
	}
	id, ok := se.X.(*ast.Ident)
	if !ok {
		return nil, nil
	}
	v, ok := x.info.ObjectOf(id).(*types.Var)
	if !ok || types.Object(v) == x.recv {
		return nil, nil
	}
	nm, ok := v.Type().(*types.Named)
	if !ok {
		return nil, nil
	}
	if _, ok := nm.Underlying().(*types.Struct); !ok {
		return nil, nil
	}
	if sel, ok := x.info.Selections[se]; ok && sel.Kind() == types.FieldVal && len(sel.Index()) == 1 {
		return v, sel.Obj().(*types.Var)
	}
	return nil, nil
}

// outside: e has a known type that is outside the subset
func (x *xl) outside(e ast.Expr) bool {
	t := x.info.TypeOf(e)
	if id, ok := e.(*ast.Ident); ok && t == nil {
		if o := x.info.ObjectOf(id); o != nil {
			t = o.Type()
		}
	}
	return t != nil && t != types.Typ[types.Invalid] && !x.translatable(t)
}

// memberType / memberZero: type and zero value of a record member (a map with string keys is a member of every record)
func (x *xl) memberType(n ast.Node, t types.Type) string {
	x.inRecord++
	defer func() { x.inRecord-- }()
	return x.coqType(n, t)
}
func (x *xl) memberZero(n ast.Node, t types.Type) string {
	x.inRecord++
	defer func() { x.inRecord-- }()
	return x.zero(n, t)
}

// translatable: does the subset have values of type t?
func (x *xl) translatable(t types.Type) (ok bool) {
	defer func() {
		if r := recover(); r != nil {
			if _, isX := r.(xErr); !isX {
				panic(r)
			}
			ok = false
		}
	}()
	x.coqType(nil, t)
	return true
}

func (x *xl) zero(n ast.Node, t types.Type) string {
	if _, _, ok := xIntType(t); ok {
		return "0"
	}
	if xIsFloat(t) != 0 {
		return "0"
	}
	if xIsError(t) && x.unit.ErrVals != "" {
		return "(@GoErrNil " + x.errRecord(n) + ")"
	}
	switch {
	case xIsBool(t), xIsError(t):
		return "false"
	case xIsBytes(t):
		return "(@nil N)"
	}
	if s, ok := t.Underlying().(*types.Slice); ok {
		return "(@nil " + x.coqType(n, s.Elem()) + ")"
	}
	if m, ok := t.Underlying().(*types.Map); ok && xIsBytes(m.Key()) && (x.inRecord > 0 || x.unit.StrMaps) { // nil map: no insertions
		return "(@nil ((list N) * " + x.coqType(n, m.Elem()) + "))"
	}
	if nm, ok := t.(*types.Named); ok {
		if st, ok := nm.Underlying().(*types.Struct); ok {
			r := x.record(n, nm)
			var fs []string
			for _, f := range x.recFields(st) {
				fs = append(fs, x.memberZero(n, f.Type()))
			}
			return "(Build_" + r + " " + strings.Join(fs, " ") + ")"
		}
	}
	x.fail(n, "no zero value for type %s in the subset", t)
	return ""
}

func (x *xl) wrap(n ast.Node, t types.Type, term string) string {
	w, signed, ok := xIntType(t)
	if !ok {
		x.fail(n, "integer type expected, found %s", t)
	}
	if signed {
		return fmt.Sprintf("(wrapS %d %s)", w, term)
	}
	return fmt.Sprintf("(wrapU %d %s)", w, term)
}

// ---------- names ----------

// field: e is recv.f in receiver-fields mode: the field
func (x *xl) field(e ast.Expr) *types.Var {
	se, ok := e.(*ast.SelectorExpr)
	if !ok || x.recv == nil {
		return nil
	}
	if id, ok := se.X.(*ast.Ident); !ok || x.info.ObjectOf(id) != x.recv {
		return nil
	}
	if sel, ok := x.info.Selections[se]; ok && sel.Kind() == types.FieldVal && len(sel.Index()) == 1 {
		return sel.Obj().(*types.Var)
	}
	return nil
}

// atomicField: c is atomic.AddInt32/AddInt64/AddUint32/AddUint64(&recv.f, d): the field
func (x *xl) atomicField(c *ast.CallExpr) *types.Var {
	switch x.src(c.Fun) {
	case "atomic.AddInt32", "atomic.AddInt64", "atomic.AddUint32", "atomic.AddUint64":
		if u, ok := c.Args[0].(*ast.UnaryExpr); ok && u.Op == token.AND {
			return x.field(u.X)
		}
	}
	return nil
}

// lvalue: the variable (or receiver field) an assignment to e sets; nil for the blank identifier
func (x *xl) lvalue(e ast.Expr) *types.Var {
	if f := x.field(e); f != nil {
		return f
	}
	if v, _ := x.structVar(e); v != nil { // v.F = e sets the struct variable v
		return v
	}
	if se, ok := e.(*ast.StarExpr); ok { // *p = v for a pointer parameter
		if id, isId := se.X.(*ast.Ident); isId && x.ptrParam[x.info.ObjectOf(id)] {
			return x.info.ObjectOf(id).(*types.Var)
		}
	}
	if ie, ok := e.(*ast.IndexExpr); ok { // m[k] = v sets the map variable
		if _, isMap := x.typeOf(ie.X).Underlying().(*types.Map); isMap {
			if f := x.field(ie.X); f != nil { // a map field of the receiver (receiver-fields mode)
				return f
			}
			if id, isId := ie.X.(*ast.Ident); isId {
				if v, isVar := x.info.ObjectOf(id).(*types.Var); isVar {
					return v
				}
			}
		}
	}
	id, ok := e.(*ast.Ident)
	if !ok {
		x.fail(e, "assignment to %s: only plain variables (and receiver fields in receiver-fields mode) can be assigned in the subset", x.src(e))
	}
	if id.Name == "_" {
		return nil
	}
	v, ok := x.info.ObjectOf(id).(*types.Var)
	if !ok {
		x.fail(e, "assignment to %s, which is not a variable", id.Name)
	}
	if v.Parent() == x.pkg.Scope() {
		x.fail(e, "assignment to the package-level variable %s (its new value would be lost)", id.Name)
	}
	return v
}

func (x *xl) declare(obj types.Object) string {
	if n, ok := x.names[obj]; ok {
		return n
	}
	n := obj.Name()
	if v, ok := obj.(*types.Var); ok && v.IsField() && x.recv != nil {
		n = x.recv.Name() + "_" + n
	}
	for _, r := range xReserved {
		if n == r {
			n += "_"
		}
	}
	if strings.HasPrefix(n, "go_") || strings.HasPrefix(n, "k_") || strings.HasPrefix(n, "tr_") || strings.Contains(n, "__") {
		n += "_" // the name spaces of the generated definitions and temporaries
	}
	for base, i := n, 1; x.used[n]; i++ {
		n = fmt.Sprintf("%s_%d", base, i)
	}
	x.used[n] = true
	x.names[obj] = n
	return n
}

func (x *xl) varName(id *ast.Ident) string {
	obj := x.info.ObjectOf(id)
	if obj == nil {
		x.fail(id, "unresolved identifier %s", id.Name)
	}
	if n, ok := x.names[obj]; ok {
		return n
	}
	x.fail(id, "%s is not a local variable, parameter or declared global of the translated code", id.Name)
	return ""
}

// namedConst: an integer constant referred to by its name (C or pkg.C) becomes a generated definition
// k_<package>_<C> with the value the type checker computed, so that proofs can speak about it by name.
func (x *xl) namedConst(e ast.Expr, v constant.Value) string {
	var id *ast.Ident
	switch e := e.(type) {
	case *ast.Ident:
		id = e
	case *ast.SelectorExpr:
		id = e.Sel
	default:
		return ""
	}
	c, ok := x.info.ObjectOf(id).(*types.Const)
	if !ok || c.Pkg() == nil || c.Parent() != c.Pkg().Scope() {
		return ""
	}
	n := "k_" + c.Pkg().Name() + "_" + c.Name()
	if old, ok := x.consts[n]; ok && old != xLit(v) {
		x.fail(e, "two different constants map to %s", n)
	}
	if _, ok := x.consts[n]; !ok {
		*x.constOrd = append(*x.constOrd, n)
	}
	x.consts[n] = xLit(v)
	return n
}

// ---------- expressions ----------

type xGuards []string

func xConj(g xGuards) string {
	if len(g) == 0 {
		return "true"
	}
	s := g[0]
	for _, t := range g[1:] {
		s = "(andb " + s + " " + t + ")"
	}
	return s
}

func xGuarded(g xGuards, term string) string {
	if len(g) == 0 {
		return term
	}
	return "if " + xConj(g) + " then (" + term + ") else Panic" // the run-time checks of the statement
}

func xLit(v constant.Value) string {
	s := v.ExactString()
	if strings.HasPrefix(s, "-") {
		return "(" + s + ")"
	}
	return s
}

func xBytesLit(s string) string {
	t := "(@nil N)"
	for i := len(s) - 1; i >= 0; i-- {
		t = fmt.Sprintf("(%d%%N :: %s)", s[i], t)
	}
	return t
}

func (x *xl) expr(e ast.Expr, g *xGuards) string {
	if o, ok := x.unit.Oracles[x.src(e)]; ok {
		if prev, used := x.oracleAt[o.Name]; (used && prev != e) || x.loops > 0 {
			x.fail(e, "oracle expression %s is used more than once (or in a loop)", x.src(e))
		}
		x.oracleAt[o.Name] = e
		return o.Name
	}
	if o, ok := x.unit.Reads[x.src(e)]; ok {
		return o.Name
	}
	if x.unit.ErrVals != "" { // error values: errors.New(s), &T{..}
		if c, ok := e.(*ast.CallExpr); ok && x.src(c.Fun) == "errors.New" && len(c.Args) == 1 {
			return "(@GoErrNew " + x.errRecord(e) + " " + x.expr(c.Args[0], g) + ")"
		}
		if u, ok := e.(*ast.UnaryExpr); ok && u.Op == token.AND {
			if cl, ok := u.X.(*ast.CompositeLit); ok {
				if nm, ok := x.info.TypeOf(cl).(*types.Named); ok && nm.Obj().Name() == x.unit.ErrVals && nm.Obj().Pkg() == x.pkg {
					return "(GoErrVal " + x.expr(cl, g) + ")"
				}
			}
		}
	}
	if f := x.field(e); f != nil {
		if n, ok := x.names[f]; ok {
			return n
		}
		x.fail(e, "receiver field %s was not found by the pre-scan", x.src(e))
	}
	if tv, ok := x.info.Types[e]; ok && tv.Value != nil { // constant expression: value as the compiler sees it
		if tv.Type != nil && xIsFloat(tv.Type) != 0 { // a float constant: only +0 (bit pattern 0)
			if constant.Sign(tv.Value) == 0 && !strings.HasPrefix(tv.Value.ExactString(), "-") {
				return "0"
			}
			x.fail(e, "float constant %s: only 0 is in the subset", x.src(e))
		}
		switch tv.Value.Kind() {
		case constant.Int:
			if n := x.namedConst(e, tv.Value); n != "" {
				return n
			}
			return xLit(tv.Value)
		case constant.Bool:
			return tv.Value.String()
		case constant.String:
			return xBytesLit(constant.StringVal(tv.Value))
		}
		x.fail(e, "constant %s of a kind outside the subset", x.src(e))
	}
	if f, ok := x.stField(e); ok {
		return "(" + f.Get + " rd)"
	}
	if x.sortVar != nil {
		if ie, ok := e.(*ast.IndexExpr); ok { // v[i] / v[j] inside the comparator of sort.Slice(v, ..): the two elements
			if vi, ok := ie.X.(*ast.Ident); ok && x.info.ObjectOf(vi) == x.sortVar {
				if ii, ok := ie.Index.(*ast.Ident); ok {
					if n, ok := x.sortIdx[x.info.ObjectOf(ii)]; ok {
						return n
					}
				}
				x.fail(e, "inside the comparator the sorted slice may only be used as v[i] and v[j]")
			}
		}
		if id, ok := e.(*ast.Ident); ok && x.info.ObjectOf(id) == x.sortVar {
			x.fail(e, "inside the comparator the sorted slice may only be used as v[i] and v[j]")
		}
	}
	switch e := e.(type) {
	case *ast.ParenExpr:
		return x.expr(e.X, g)
	case *ast.StarExpr: // *p for a pointer parameter p: the in/out value
		if id, ok := e.X.(*ast.Ident); ok && x.ptrParam[x.info.ObjectOf(id)] {
			return x.names[x.info.ObjectOf(id)]
		}
	case *ast.Ident:
		if _, isNil := x.info.ObjectOf(e).(*types.Nil); isNil {
			return x.zero(e, x.typeOf(e))
		}
		if _, isMap := x.typeOf(e).Underlying().(*types.Map); isMap {
			x.fail(e, "the map %s is used other than by m[k] and m[k] = v (maps are references: copies would alias)", e.Name)
		}
		return x.varName(e)
	case *ast.UnaryExpr:
		if e.Op == token.NOT { // normalisation: the negation of an integer comparison is the opposite comparison, !!c is c
			inner := xUnparen(e.X)
			if u, ok := inner.(*ast.UnaryExpr); ok && u.Op == token.NOT {
				return x.expr(u.X, g)
			}
			if b, ok := inner.(*ast.BinaryExpr); ok {
				opp := map[token.Token]token.Token{token.LSS: token.GEQ, token.GEQ: token.LSS, token.GTR: token.LEQ, token.LEQ: token.GTR, token.EQL: token.NEQ, token.NEQ: token.EQL}
				if o, isCmp := opp[b.Op]; isCmp {
					t := x.info.TypeOf(b.X)
					if tv := x.info.Types[b.X]; tv.Value != nil {
						t = x.info.TypeOf(b.Y)
					}
					if _, _, isInt := xIntType(t); isInt && t != nil {
						nb := *b
						nb.Op = o
						return x.binary(&nb, g)
					}
				}
			}
		}
		a := x.expr(e.X, g)
		t := x.typeOf(e)
		switch e.Op {
		case token.NOT:
			return "(negb " + a + ")"
		case token.SUB:
			return x.wrap(e, t, "(- "+a+")")
		case token.ADD:
			return a
		case token.XOR:
			return x.wrap(e, t, "(Z.lnot "+a+")")
		}
	case *ast.BinaryExpr:
		return x.binary(e, g)
	case *ast.CallExpr:
		return x.call(e, g)
	case *ast.IndexExpr:
		t := x.typeOf(e.X)
		if m, ok := t.Underlying().(*types.Map); ok {
			if xIsBytes(m.Key()) {
				x.fail(e, "lookup in a map with string keys is outside the subset")
			}
			return "(go_map_get " + x.mapVar(e) + " " + x.expr(e.Index, g) + " " + x.zero(e, m.Elem()) + ")"
		}
		l, i := x.expr(e.X, g), x.expr(e.Index, g)
		*g = append(*g, "(go_in_range "+l+" "+i+")")
		if xIsBytes(t) {
			return "(Z.of_N (go_nth " + l + " " + i + " 0%N))"
		}
		if s, ok := t.Underlying().(*types.Slice); ok {
			return "(go_nth " + l + " " + i + " " + x.zero(e, s.Elem()) + ")"
		}
		x.fail(e, "indexing a value of type %s is outside the subset", t)
	case *ast.SliceExpr:
		t := x.typeOf(e.X)
		if _, ok := t.Underlying().(*types.Slice); !(ok || xIsString(t)) || e.Slice3 {
			x.fail(e, "slicing of %s (or a 3-index slice) is outside the subset", t)
		}
		l := x.expr(e.X, g)
		lo, hi := "0", "(go_len "+l+")"
		if e.Low != nil {
			lo = x.expr(e.Low, g)
		}
		if e.High != nil {
			hi = x.expr(e.High, g)
		}
		*g = append(*g, "(go_slice_ok "+l+" "+lo+" "+hi+")")
		return "(go_slice " + l + " " + lo + " " + hi + ")"
	case *ast.SelectorExpr: // field of a struct value
		if sel, ok := x.info.Selections[e]; ok && sel.Kind() == types.FieldVal && len(sel.Index()) == 1 {
			if nm, ok := sel.Recv().(*types.Named); ok {
				if _, ok := nm.Underlying().(*types.Struct); ok {
					if !x.translatable(sel.Obj().Type()) {
						x.fail(e, "field %s has a type outside the subset", x.src(e))
					}
					return "(" + x.record(e, nm) + "_" + e.Sel.Name + " " + x.expr(e.X, g) + ")"
				}
			}
		}
	case *ast.CompositeLit:
		return x.composite(e, g)
	}
	x.fail(e, "expression %s (%T) is outside the subset", x.src(e), e)
	return ""
}

// xUnparen: e without enclosing parentheses
func xUnparen(e ast.Expr) ast.Expr {
	for {
		p, ok := e.(*ast.ParenExpr)
		if !ok {
			return e
		}
		e = p.X
	}
}

// chain: the operands of a chain a op b op c (op = && or ||), left to right
func xChain(e ast.Expr, op token.Token) []ast.Expr {
	if b, ok := xUnparen(e).(*ast.BinaryExpr); ok && b.Op == op {
		return append(xChain(b.X, op), xChain(b.Y, op)...)
	}
	return []ast.Expr{e}
}

// pureOperand: an operand of && / || whose evaluation has no effect and cannot panic: no call other than len and
// conversions, no oracle (a run-time check would show up as a guard; that is tested after translation)
func (x *xl) pureOperand(e ast.Expr) bool {
	pure := true
	ast.Inspect(e, func(n ast.Node) bool {
		if ex, ok := n.(ast.Expr); ok {
			if _, isO := x.unit.Oracles[x.src(ex)]; isO {
				pure = false
			}
		}
		if c, ok := n.(*ast.CallExpr); ok {
			if tv, isT := x.info.Types[c.Fun]; isT && tv.IsType() {
				return true
			}
			if id, isId := c.Fun.(*ast.Ident); !isId || id.Name != "len" {
				pure = false
			}
		}
		return pure
	})
	return pure
}

func (x *xl) binary(e *ast.BinaryExpr, g *xGuards) string {
	switch e.Op {
	case token.LAND, token.LOR: // the right operand (and its checks) is evaluated only if needed
		// normalisation: a chain whose operands are all free of effects and run-time checks has the same value in any
		// order of its operands; it is emitted in a canonical order (sorted by the emitted text), so that reordering the
		// conjuncts in the source does not change the translation
		if ops := xChain(e, e.Op); len(ops) >= 2 {
			var ts []string
			ok := true
			for _, o := range ops {
				var go_ xGuards
				if !x.pureOperand(o) {
					ok = false
					break
				}
				t := x.expr(o, &go_)
				if len(go_) > 0 {
					ok = false
					break
				}
				ts = append(ts, t)
			}
			if ok {
				sort.Strings(ts)
				r := ts[len(ts)-1]
				for i := len(ts) - 2; i >= 0; i-- {
					if e.Op == token.LAND {
						r = "(if " + ts[i] + " then " + r + " else false)"
					} else {
						r = "(if " + ts[i] + " then true else " + r + ")"
					}
				}
				return r
			}
		}
		a := x.expr(e.X, g)
		var gr xGuards
		b := x.expr(e.Y, &gr)
		// written with [if] (convertible to andb / orb / implb): evaluation, too, skips the right operand
		for _, c := range gr {
			if e.Op == token.LAND {
				*g = append(*g, "(if "+a+" then "+c+" else true)")
			} else {
				*g = append(*g, "(if "+a+" then true else "+c+")")
			}
		}
		if e.Op == token.LAND {
			return "(if " + a + " then " + b + " else false)"
		}
		return "(if " + a + " then true else " + b + ")"
	}
	switch e.Op {
	case token.EQL, token.NEQ: // comparison with nil: nil is the zero value of the other operand's type
		if x.info.Types[e.Y].IsNil() && !x.info.Types[e.X].IsNil() {
			return x.compare(e, x.typeOf(e.X), x.expr(e.X, g), x.zero(e, x.typeOf(e.X)))
		}
		if x.info.Types[e.X].IsNil() && !x.info.Types[e.Y].IsNil() {
			return x.compare(e, x.typeOf(e.Y), x.zero(e, x.typeOf(e.Y)), x.expr(e.Y, g))
		}
	}
	a, b := x.expr(e.X, g), x.expr(e.Y, g)
	switch e.Op {
	case token.EQL, token.NEQ, token.LSS, token.LEQ, token.GTR, token.GEQ:
		t := x.typeOf(e.X)
		if tv := x.info.Types[e.X]; tv.Value != nil { // untyped constant on the left: the other side decides
			t = x.typeOf(e.Y)
		}
		return x.compare(e, t, a, b)
	}
	return x.arith(e, a, b, g)
}

// nilIsEmpty: e compares a slice variable listed in the unit's NilIsEmpty with nil
func (x *xl) nilIsEmpty(e *ast.BinaryExpr) bool {
	v := e.X
	if x.info.Types[e.X].IsNil() {
		v = e.Y
	} else if !x.info.Types[e.Y].IsNil() {
		return false
	}
	id, ok := v.(*ast.Ident)
	if !ok {
		return false
	}
	if _, isSlice := x.typeOf(id).Underlying().(*types.Slice); !isSlice {
		return false
	}
	for _, n := range x.unit.NilIsEmpty {
		if n == id.Name {
			return true
		}
	}
	return false
}

// compare: a op b for operands of type t
func (x *xl) compare(e *ast.BinaryExpr, t types.Type, a, b string) string {
	var r string
	_, _, isInt := xIntType(t)
	switch {
	case isInt:
		switch e.Op {
		case token.EQL, token.NEQ: // normalisation: a constant operand is written on the right
			if tv := x.info.Types[e.X]; tv.Value != nil && x.info.Types[e.Y].Value == nil {
				a, b = b, a
			}
			r = "(" + a + " =? " + b + ")"
		case token.LSS:
			return "(" + a + " <? " + b + ")"
		case token.LEQ:
			return "(" + a + " <=? " + b + ")"
		case token.GTR:
			return "(" + b + " <? " + a + ")"
		case token.GEQ:
			return "(" + b + " <=? " + a + ")"
		}
	case xIsBool(t) && (e.Op == token.EQL || e.Op == token.NEQ):
		r = "(Bool.eqb " + a + " " + b + ")"
	case xIsBytes(t) && xIsString(t) && (e.Op == token.EQL || e.Op == token.NEQ):
		r = "(go_bytes_eqb " + a + " " + b + ")"
	case xIsString(t) && e.Op == token.LSS: // byte-wise lexicographic order
		return "(go_bytes_ltb " + a + " " + b + ")"
	case xIsString(t) && e.Op == token.GTR:
		return "(go_bytes_ltb " + b + " " + a + ")"
	case xIsString(t) && e.Op == token.LEQ:
		return "(negb (go_bytes_ltb " + b + " " + a + "))"
	case xIsString(t) && e.Op == token.GEQ:
		return "(negb (go_bytes_ltb " + a + " " + b + "))"
	case xIsError(t) && (e.Op == token.EQL || e.Op == token.NEQ): // comparison with nil only
		if !x.info.Types[e.Y].IsNil() && !x.info.Types[e.X].IsNil() {
			x.fail(e, "errors can only be compared with nil")
		}
		r = "(Bool.eqb " + a + " " + b + ")"
	case (e.Op == token.EQL || e.Op == token.NEQ) && x.nilIsEmpty(e):
		v := e.X
		if x.info.Types[e.X].IsNil() {
			v = e.Y
		}
		var g0 xGuards
		r = "((go_len " + x.expr(v, &g0) + ") =? 0)"
	case !xIsBytes(t) && (e.Op == token.EQL || e.Op == token.NEQ) && (x.info.Types[e.Y].IsNil() || x.info.Types[e.X].IsNil()):
		x.fail(e, "comparison of a %s with nil is outside the subset", t)
	default:
		x.fail(e, "comparison %s of values of type %s is outside the subset", e.Op, t)
	}
	if e.Op == token.NEQ {
		return "(negb " + r + ")"
	}
	return r
}

// arith: a op b for integer operands, wrapped to the width of the result type where the operation can leave it
func (x *xl) arith(e *ast.BinaryExpr, a, b string, g *xGuards) string {
	t := x.typeOf(e)
	if _, _, ok := xIntType(t); !ok {
		x.fail(e, "operator %s on type %s is outside the subset", e.Op, t)
	}
	switch e.Op {
	case token.ADD:
		return x.wrap(e, t, "("+a+" + "+b+")")
	case token.SUB:
		return x.wrap(e, t, "("+a+" - "+b+")")
	case token.MUL:
		return x.wrap(e, t, "("+a+" * "+b+")")
	case token.QUO: // truncated division; division by zero panics
		*g = append(*g, "(negb ("+b+" =? 0))")
		return x.wrap(e, t, "(Z.quot "+a+" "+b+")")
	case token.REM:
		*g = append(*g, "(negb ("+b+" =? 0))")
		return "(Z.rem " + a + " " + b + ")"
	case token.AND:
		return "(Z.land " + a + " " + b + ")"
	case token.OR:
		return "(Z.lor " + a + " " + b + ")"
	case token.XOR:
		return "(Z.lxor " + a + " " + b + ")"
	case token.AND_NOT:
		return "(Z.ldiff " + a + " " + b + ")"
	case token.SHL, token.SHR: // a negative shift count panics (a constant count is checked by the compiler)
		if x.info.Types[e.Y].Value == nil {
			*g = append(*g, "(0 <=? "+b+")")
		}
		if e.Op == token.SHR {
			return "(Z.shiftr " + a + " " + b + ")"
		}
		return x.wrap(e, t, "(Z.shiftl "+a+" "+b+")")
	}
	x.fail(e, "operator %s is outside the subset", e.Op)
	return ""
}

func (x *xl) call(e *ast.CallExpr, g *xGuards) string {
	if x.unit.Errs[x.src(e.Fun)] { // an error value that is not nil; its text is not modelled
		return "true"
	}
	if f, ok := x.unit.Funcs[x.src(e.Fun)]; ok { // a declared pure function: a function parameter
		as := []string{f.Name}
		for _, a := range e.Args {
			if t := x.info.TypeOf(a); t != nil && !x.translatable(t) { // an argument outside the subset (a context): the parameter stands for the call with it
				continue
			}
			as = append(as, x.expr(a, g))
		}
		return "(" + strings.Join(as, " ") + ")"
	}
	if se, ok := e.Fun.(*ast.SelectorExpr); ok && len(e.Args) == 0 {
		if m, ok := x.unit.Methods[se.Sel.Name]; ok { // a declared pure method: a function parameter
			if _, isFn := x.info.ObjectOf(se.Sel).(*types.Func); isFn {
				return "(" + m.Name + " " + x.expr(se.X, g) + ")"
			}
		}
	}
	if x.src(e.Fun) == "sort.Search" && len(e.Args) == 2 { // sort.Search(n, func(i int) bool { return P })
		if fl, ok := e.Args[1].(*ast.FuncLit); ok && len(fl.Body.List) == 1 && len(fl.Type.Params.List) == 1 && len(fl.Type.Params.List[0].Names) == 1 {
			if rs, ok := fl.Body.List[0].(*ast.ReturnStmt); ok && len(rs.Results) == 1 {
				n := x.expr(e.Args[0], g)
				iv := x.declare(x.info.ObjectOf(fl.Type.Params.List[0].Names[0]))
				var gi xGuards
				p := x.expr(rs.Results[0], &gi)
				// the predicate is evaluated by the binary search only; a failing run-time check inside it is a panic of the search
				f := "(fun " + iv + " : Z => if " + xConj(gi) + " then Some " + p + " else None)"
				*g = append(*g, "(go_search_ok "+n+" "+f+")")
				return "(go_search " + n + " " + f + ")"
			}
		}
		x.fail(e, "sort.Search is in the subset only with a function literal of the form func(i int) bool { return P }")
	}
	if sp := x.stSpec(); sp != nil {
		f := x.src(e.Fun)
		if sp.Errs[f] { // an error value that is not nil; its text is not modelled
			return "true"
		}
		if p, ok := sp.Pure[f]; ok {
			as := []string{p}
			for _, a := range e.Args {
				as = append(as, x.expr(a, g))
			}
			return "(" + strings.Join(as, " ") + " rd)"
		}
	}
	switch x.src(e.Fun) { // floats are their bit patterns
	case "math.Float32bits", "math.Float64bits", "math.Float32frombits", "math.Float64frombits":
		if len(e.Args) == 1 {
			return x.expr(e.Args[0], g)
		}
	}
	if tv := x.info.Types[e.Fun]; tv.IsType() { // conversion T(v)
		if len(e.Args) != 1 {
			x.fail(e, "conversion with %d arguments", len(e.Args))
		}
		from, to := x.typeOf(e.Args[0]), tv.Type
		a := x.expr(e.Args[0], g)
		if xIsFloat(from) == 32 && xIsFloat(to) == 64 { // the exact widening, on bit patterns
			return "(go_f32_to_f64 " + a + ")"
		}
		if xIsFloat(from) != 0 && xIsFloat(from) == xIsFloat(to) {
			return a
		}
		fw, fs, fok := xIntType(from)
		tw, ts, tok := xIntType(to)
		switch {
		case fok && tok:
			if (fs == ts && fw <= tw) || (!fs && ts && fw < tw) { // every value of the source type fits
				return a
			}
			return x.wrap(e, to, a)
		case xIsBytes(from) && xIsBytes(to):
			return a
		}
		x.fail(e, "conversion from %s to %s is outside the subset", from, to)
	}
	if id, ok := e.Fun.(*ast.Ident); ok {
		if b, ok := x.info.ObjectOf(id).(*types.Builtin); ok {
			if b.Name() == "len" {
				t := x.typeOf(e.Args[0])
				if _, isSlice := t.Underlying().(*types.Slice); !(isSlice || xIsString(t)) {
					x.fail(e, "len of a %s is outside the subset", t)
				}
				return "(go_len " + x.expr(e.Args[0], g) + ")"
			}
			if b.Name() == "make" {
				return x.makeCall(e, g)
			}
			if b.Name() == "append" {
				x.fail(e, "append is in the subset only as the statement  v = append(v, e...)")
			}
			x.fail(e, "builtin %s is outside the subset", b.Name())
		}
	}
	if sel, ok := e.Fun.(*ast.SelectorExpr); ok {
		if f, ok := x.info.ObjectOf(sel.Sel).(*types.Func); ok {
			if n, ok := map[string]int{"(encoding/binary.bigEndian).Uint16": 2, "(encoding/binary.bigEndian).Uint32": 4,
				"(encoding/binary.bigEndian).Uint64": 8}[f.FullName()]; ok {
				a := x.expr(e.Args[0], g)
				*g = append(*g, fmt.Sprintf("(%d <=? go_len %s)", n, a))
				return fmt.Sprintf("(go_be_u%d %s)", n*8, a)
			}
		}
	}
	x.fail(e, "call of %s is outside the subset (not a conversion, len, binary.BigEndian.UintNN or a declared writer call in statement position)", x.src(e.Fun))
	return ""
}

func (x *xl) composite(e *ast.CompositeLit, g *xGuards) string {
	if sl, ok := x.typeOf(e).Underlying().(*types.Slice); ok { // []T{e1, ..} without keys
		t := x.zero(e, x.typeOf(e))
		for i := len(e.Elts) - 1; i >= 0; i-- {
			if _, keyed := e.Elts[i].(*ast.KeyValueExpr); keyed {
				x.fail(e, "keyed slice literals are outside the subset")
			}
			el := x.expr(e.Elts[i], g)
			if xIsBytes(x.typeOf(e)) {
				el = "(Z.to_N " + el + ")"
			}
			t = "(" + el + " :: " + t + ")"
		}
		_ = sl
		return t
	}
	if m, ok := x.typeOf(e).Underlying().(*types.Map); ok {
		t := "(@nil (Z * " + x.coqType(e, m.Elem()) + "))"
		x.coqType(e, x.typeOf(e))
		for _, el := range e.Elts { // later duplicates are rejected by the compiler for constant keys
			kv := el.(*ast.KeyValueExpr)
			t = "(go_map_set " + t + " " + x.expr(kv.Key, g) + " " + x.expr(kv.Value, g) + ")"
		}
		return t
	}
	nm, ok := x.typeOf(e).(*types.Named)
	if !ok {
		x.fail(e, "composite literal of an unnamed type")
	}
	st, ok := nm.Underlying().(*types.Struct)
	if !ok {
		x.fail(e, "composite literal of the non-struct type %s", nm)
	}
	r := x.record(e, nm)
	vals := map[string]string{}
	for i, el := range e.Elts { // evaluated in source order
		if kv, ok := el.(*ast.KeyValueExpr); ok {
			if id, isId := kv.Value.(*ast.Ident); isId && x.unit.StrMaps { // a map with string keys handed to a member: the list of its insertions so far
				if m, isMap := x.typeOf(id).Underlying().(*types.Map); isMap && xIsBytes(m.Key()) {
					vals[kv.Key.(*ast.Ident).Name] = x.varName(id)
					continue
				}
			}
			vals[kv.Key.(*ast.Ident).Name] = x.expr(kv.Value, g)
		} else {
			vals[st.Field(i).Name()] = x.expr(el, g)
		}
	}
	var fs []string
	have := map[string]bool{}
	for _, f := range x.recFields(st) {
		have[f.Name()] = true
		v, ok := vals[f.Name()]
		if !ok {
			v = x.memberZero(e, f.Type())
		}
		fs = append(fs, "\n      "+r+"_"+f.Name()+" := "+v)
	}
	for n := range vals {
		if !have[n] {
			x.fail(e, "field %s of %s has a type outside the subset", n, nm)
		}
	}
	return "{|" + strings.Join(fs, ";") + " |}"
}

// mapVar: the variable of an index expression m[k] on a map
func (x *xl) mapVar(e *ast.IndexExpr) string {
	if f := x.field(e.X); f != nil {
		if n, ok := x.names[f]; ok {
			return n
		}
	}
	id, ok := e.X.(*ast.Ident)
	if !ok {
		x.fail(e, "map expression %s: only a map variable can be indexed", x.src(e.X))
	}
	return x.varName(id)
}

// make([]T, n) / make([]T, n, c) / make(map[K]V): n zero values (make panics unless 0 <= n <= c) / the empty map
func (x *xl) makeCall(e *ast.CallExpr, g *xGuards) string {
	t := x.typeOf(e)
	if _, ok := t.Underlying().(*types.Map); ok {
		return x.zero(e, t)
	}
	sl, ok := t.Underlying().(*types.Slice)
	if !ok || len(e.Args) < 2 {
		x.fail(e, "make of %s is outside the subset", t)
	}
	n := x.expr(e.Args[1], g)
	*g = append(*g, "(0 <=? "+n+")")
	if len(e.Args) == 3 {
		*g = append(*g, "("+n+" <=? "+x.expr(e.Args[2], g)+")")
	}
	z := x.zero(e, sl.Elem())
	if xIsBytes(t) {
		z = "0%N"
	}
	return "(go_make " + n + " " + z + ")"
}

// fresh: v is declared inside the translated statements and only ever holds values made there (zero value, make,
// composite literal, append to itself), so no other slice shares its backing array and append acts on it as on a value
func (x *xl) fresh(v *types.Var, at ast.Node) {
	if x.freshDone[v] {
		return
	}
	if x.freshDone == nil {
		x.freshDone = map[*types.Var]bool{}
	}
	x.freshDone[v] = true
	scope := x.body
	if !(x.lo <= v.Pos() && v.Pos() < x.hi) {
		listed := false
		for _, n := range x.unit.Fresh {
			listed = listed || n == v.Name()
		}
		if !listed || len(x.fnBody) == 0 || !(x.fnBody[0].Pos() <= v.Pos() && v.Pos() < x.fnBody[len(x.fnBody)-1].End()) {
			x.fail(at, "append to %s, which is not declared in the translated statements (it may share its array)", v.Name())
		}
		scope = x.fnBody // a listed slice parameter: the rule is checked over the whole function
	}
	var assignAt ast.Node
	ok := func(r ast.Expr) bool {
		switch r := r.(type) {
		case *ast.CompositeLit:
			return true
		case *ast.Ident:
			if _, isNil := x.info.ObjectOf(r).(*types.Nil); isNil {
				return true
			}
			// v = w for another such variable w that is not used any more afterwards (within its scope)
			w, isVar := x.info.ObjectOf(r).(*types.Var)
			if !isVar || w.Parent() == nil || assignAt == nil {
				return false
			}
			dead := true
			for id, o := range x.info.Uses {
				if o == types.Object(w) && id.Pos() > assignAt.End() && id.Pos() < w.Parent().End() {
					dead = false
				}
			}
			if !dead {
				return false
			}
			x.fresh(w, at)
			return true
		case *ast.SliceExpr: // v = v[lo:hi]: no other slice comes to share the array
			if id, isId := r.X.(*ast.Ident); isId && x.info.ObjectOf(id) == types.Object(v) && !r.Slice3 {
				return true
			}
		case *ast.CallExpr:
			if id, isId := r.Fun.(*ast.Ident); isId && len(r.Args) > 0 {
				if a0, isId := r.Args[0].(*ast.Ident); id.Name == "append" && isId && x.info.ObjectOf(a0) == v {
					return true
				}
				return id.Name == "make"
			}
		}
		return false
	}
	for _, st := range scope {
		ast.Inspect(st, func(n ast.Node) bool {
			switch n := n.(type) {
			case *ast.AssignStmt:
				assignAt = n
				for i, l := range n.Lhs {
					if id, isId := l.(*ast.Ident); isId && x.info.ObjectOf(id) == v && (len(n.Lhs) != len(n.Rhs) || !ok(n.Rhs[i])) {
						x.fail(n, "%s is appended to but also assigned a value that may share its array", v.Name())
					}
				}
			case *ast.ValueSpec:
				for i, id := range n.Names {
					if x.info.ObjectOf(id) == v && len(n.Values) > 0 && (len(n.Values) != len(n.Names) || !ok(n.Values[i])) {
						x.fail(n, "%s is appended to but also initialised with a value that may share its array", v.Name())
					}
				}
			}
			return true
		})
	}
}

// sort.Slice(v, func(i, j int) bool { ... v[i] ... v[j] ... }) for a variable v: v is replaced by the sorted list.
// The comparator is translated as a function of the two elements; None = one of its run-time checks fails.
func (x *xl) sortSlice(s ast.Stmt, c *ast.CallExpr, rest func() string, d int) string {
	vid, ok := c.Args[0].(*ast.Ident)
	fl, ok2 := c.Args[1].(*ast.FuncLit)
	if !ok || !ok2 || len(fl.Type.Params.List) == 0 {
		x.fail(s, "sort.Slice is in the subset as sort.Slice(v, func(i, j int) bool { ... }) on a variable v")
	}
	var ps []*ast.Ident
	for _, f := range fl.Type.Params.List {
		ps = append(ps, f.Names...)
	}
	if len(ps) != 2 || x.inLambda {
		x.fail(s, "the comparator of sort.Slice takes two indexes")
	}
	v := x.lvalue(vid)
	x.fresh(v, s)
	vn := x.varName(vid)
	sl, isSlice := v.Type().Underlying().(*types.Slice)
	if !isSlice {
		x.fail(s, "sort.Slice of a %s", v.Type())
	}
	et := x.coqType(s, sl.Elem())
	x.inLambda, x.sortVar = true, v
	x.sortIdx = map[types.Object]string{x.info.ObjectOf(ps[0]): "a__", x.info.ObjectOf(ps[1]): "b__"}
	saveN, saveT, saveLoop := x.nres, x.resTypes, x.inLoop
	x.nres, x.resTypes, x.inLoop = 1, []types.Type{types.Typ[types.Bool]}, false
	body := x.block(fl.Body.List, "Panic", d+2)
	x.nres, x.resTypes, x.inLoop = saveN, saveT, saveLoop
	x.inLambda, x.sortVar, x.sortIdx = false, nil, nil
	less := "(fun (a__ b__ : " + et + ") => match (" + body + " : ctl unit bool) with Return r__ => Some r__ | _ => None end)"
	return "match go_sort_by " + less + " " + vn + " with" + xInd(d) + "| Some " + vn + " =>" + xInd(d) + rest() + xInd(d) + "| None => Panic" + xInd(d) + "end"
}

// ---------- statements ----------

// assigned: the variables declared outside the statements ss that ss assign (in declaration order); in
// writer mode the output buffer is always among them.
func (x *xl) assigned(ss []ast.Stmt) []*types.Var {
	if len(ss) == 0 {
		return nil
	}
	lo, hi := ss[0].Pos(), ss[len(ss)-1].End()
	set := map[*types.Var]bool{}
	mark := func(e ast.Expr) {
		if _, isId := e.(*ast.Ident); isId && x.outside(e) { // a variable outside the subset carries no value of the translation
			return
		}
		if v := x.lvalue(e); v != nil && !(lo <= v.Pos() && v.Pos() < hi) {
			set[v] = true
		}
	}
	for _, s := range ss {
		ast.Inspect(s, func(n ast.Node) bool {
			switch n := n.(type) {
			case *ast.AssignStmt:
				for _, l := range n.Lhs {
					mark(l)
				}
			case *ast.IncDecStmt:
				mark(n.X)
			case *ast.CallExpr: // sort.Slice(v, less) sets v; the comparators of sort.Slice / sort.Search assign nothing
				switch x.src(n.Fun) {
				case "sort.Slice":
					if len(n.Args) == 2 {
						mark(n.Args[0])
					}
					return false
				case "sort.Search":
					return false
				}
			case *ast.FuncLit:
				x.fail(n, "function literals are outside the subset")
			}
			return true
		})
	}
	var vs []*types.Var
	for v := range set {
		if _, ok := x.names[v]; !ok {
			x.fail(ss[0], "assignment to %s, which is not a variable of the translated code", v.Name())
		}
		vs = append(vs, v)
	}
	sort.Slice(vs, func(i, j int) bool { return vs[i].Pos() < vs[j].Pos() })
	return vs
}

// state tuple of the variables vs (plus the output buffer in writer mode): term, type, and a binder [fun st => let .. in]
func (x *xl) state(n ast.Node, vs []*types.Var) (term, typ, bind string) {
	var ns, ts []string
	if x.unit.Writer != nil {
		ns, ts = append(ns, "out"), append(ts, "("+x.unit.Writer.typ()+")")
	}
	if x.unit.State != nil {
		ns, ts = append(ns, "rd"), append(ts, x.unit.State.Type)
	}
	for _, v := range vs {
		t := v.Type()
		if pt, ok := t.(*types.Pointer); ok && x.ptrParam[v] { // a pointer parameter stands for its pointee
			t = pt.Elem()
		}
		ns, ts = append(ns, x.names[v]), append(ts, x.coqType(n, t))
	}
	switch len(ns) {
	case 0:
		return "tt", "unit", "fun _ : unit => "
	case 1:
		return ns[0], ts[0], "fun " + ns[0] + " : " + ts[0] + " => "
	}
	return "(" + strings.Join(ns, ", ") + ")", "(" + strings.Join(ts, " * ") + ")",
		"fun st : " + strings.Join(ts, " * ") + " => let '(" + strings.Join(ns, ", ") + ") := st in "
}

// falls: can control reach the end of the statements?
func xFalls(ss []ast.Stmt) bool {
	if len(ss) == 0 {
		return true
	}
	switch s := ss[len(ss)-1].(type) {
	case *ast.ReturnStmt:
		return false
	case *ast.ExprStmt:
		if c, ok := s.X.(*ast.CallExpr); ok {
			if id, ok := c.Fun.(*ast.Ident); ok && id.Name == "panic" {
				return false
			}
		}
		return true
	case *ast.BlockStmt:
		return xFalls(s.List)
	case *ast.IfStmt:
		if s.Else == nil {
			return true
		}
		return xFalls(s.Body.List) || xFalls([]ast.Stmt{s.Else})
	}
	return true
}

// xNegated: c is the text (negb X) for one term X: X
func xNegated(c string) (string, bool) {
	if !strings.HasPrefix(c, "(negb ") || !strings.HasSuffix(c, ")") {
		return "", false
	}
	in := c[len("(negb ") : len(c)-1]
	depth := 0
	for i, r := range in {
		switch r {
		case '(':
			depth++
		case ')':
			depth--
			if depth < 0 {
				return "", false
			}
		case ' ':
			if depth == 0 && i > 0 { // two terms at the top level: (negb a) b ...
				return "", false
			}
		}
	}
	return in, depth == 0
}

func xInd(d int) string { return "\n" + strings.Repeat("  ", d) }

// block: the statements ss followed by the continuation k (a ctl term), at nesting depth d
func (x *xl) block(ss []ast.Stmt, k string, d int) string {
	if len(ss) == 0 {
		return k
	}
	return x.stmt(ss[0], func() string { return x.block(ss[1:], k, d) }, d)
}

func (x *xl) ret(vals []string) string {
	if x.inLambda { // the comparator of sort.Slice
		return "Return " + vals[0]
	}
	for _, f := range x.recvOut { // the receiver fields the code assigns, as they are at this return
		vals = append(vals, x.names[f])
	}
	v := "tt"
	if len(vals) == 1 {
		v = vals[0]
	} else if len(vals) > 1 {
		v = "(" + strings.Join(vals, ", ") + ")"
	}
	if x.unit.Writer != nil {
		v = "(out, " + v + ")"
	}
	if x.unit.State != nil { // the state, the pointees of the pointer parameters, the results
		all := []string{"rd"}
		for _, p := range x.ptrOrder {
			all = append(all, x.names[p])
		}
		if v != "tt" || len(vals) > 0 {
			all = append(all, vals...)
		}
		v = all[0]
		if len(all) > 1 {
			v = "(" + strings.Join(all, ", ") + ")"
		}
	}
	if x.inLoop { // inside `for { }` a return is told apart from break
		return "Return (inr " + v + ")"
	}
	return "Return " + v
}

// writerCall: is e a call that appends to the receiver? Returns the ctl term of the callee, or the bytes appended.
func (x *xl) writerCall(e ast.Expr, g *xGuards) (callee, prim string, ok bool) {
	c, isCall := e.(*ast.CallExpr)
	if !isCall || x.unit.Writer == nil {
		return
	}
	f := x.src(c.Fun)
	if p, found := x.unit.Writer.Prims[f]; found {
		var as []string
		for _, i := range p.Args {
			if i >= len(c.Args) {
				x.fail(c, "%s: argument %d expected", f, i)
			}
			as = append(as, x.expr(c.Args[i], g))
		}
		return "", "(" + p.Coq + " " + strings.Join(as, " ") + ")", true
	}
	if u, found := x.unit.Writer.Calls[f]; found {
		as := []string{u}
		for _, a := range c.Args {
			as = append(as, x.expr(a, g))
		}
		return "(" + strings.Join(as, " ") + " out)", "", true
	}
	return
}

// effect: a writer call whose error result is bound to the variable named errv ("_" to drop it)
func (x *xl) effect(callee, prim, errv string, g xGuards, k string, d int) string {
	if prim != "" {
		return xGuarded(g, "let out := out ++ "+prim+" in let "+errv+" := false in"+xInd(d)+k)
	}
	return xGuarded(g, "go_call "+callee+" (fun r__ => let '(out, "+errv+") := r__ in"+xInd(d)+k+")")
}

func (x *xl) stmt(s ast.Stmt, rest func() string, d int) string {
	for _, ig := range x.unit.Ignore {
		if x.src(s) == ig {
			return rest()
		}
	}
	switch s := s.(type) {
	case *ast.EmptyStmt:
		return rest()
	case *ast.BlockStmt:
		return x.block(s.List, rest(), d)
	case *ast.ReturnStmt:
		var g xGuards
		if len(s.Results) == 1 {
			if callee, prim, ok := x.writerCall(s.Results[0], &g); ok {
				return x.effect(callee, prim, "err__", g, x.ret([]string{"err__"}), d)
			}
		}
		if len(s.Results) == 0 && len(x.namedRes) > 0 { // bare return: the named results as they are
			var vs []string
			for _, v := range x.namedRes {
				vs = append(vs, x.names[v])
			}
			return x.ret(vs)
		}
		if len(s.Results) != x.nres {
			x.fail(s, "return with %d values in a function with %d results (named results are outside the subset)", len(s.Results), x.nres)
		}
		var vs []string
		for i, r := range s.Results {
			if x.info.Types[r].IsNil() && i < len(x.resTypes) { // nil is the zero value of the result's type
				vs = append(vs, x.zero(r, x.resTypes[i]))
			} else {
				vs = append(vs, x.expr(r, &g))
			}
		}
		return xGuarded(g, x.ret(vs))
	case *ast.BranchStmt:
		if s.Tok == token.BREAK && s.Label == nil && x.inLoop && x.loopCont { // go_loop: break / continue / return are told apart
			return "Return (inl (inl " + x.loopState + "))"
		}
		if s.Tok == token.CONTINUE && s.Label == nil && x.inLoop && x.loopCont {
			return "Return (inl (inr " + x.loopState + "))"
		}
		if s.Tok == token.BREAK && s.Label == nil && x.inLoop {
			return "Return (inl " + x.loopState + ")"
		}
	case *ast.DeclStmt:
		gd, ok := s.Decl.(*ast.GenDecl)
		if !ok || gd.Tok != token.VAR {
			x.fail(s, "only var declarations are in the subset")
		}
		var g xGuards
		var lets []string
		for _, sp := range gd.Specs {
			vs := sp.(*ast.ValueSpec)
			if len(vs.Values) != 0 && len(vs.Values) != len(vs.Names) {
				x.fail(s, "var declaration from a multi-valued expression")
			}
			for i, id := range vs.Names {
				obj := x.info.ObjectOf(id)
				v := ""
				if len(vs.Values) == 0 {
					v = x.zero(id, obj.Type())
				} else {
					v = x.expr(vs.Values[i], &g)
				}
				if id.Name != "_" {
					lets = append(lets, "let "+x.declare(obj)+" : "+x.coqType(id, obj.Type())+" := "+v+" in")
				}
			}
		}
		return xGuarded(g, strings.Join(lets, " ")+xInd(d)+rest())
	case *ast.ExprStmt:
		var g xGuards
		if callee, prim, ok := x.writerCall(s.X, &g); ok {
			return x.effect(callee, prim, "_", g, rest(), d)
		}
		if inv := x.stCall(s.X, &g); inv != nil {
			return x.stBind(s, inv, nil, false, g, rest, d)
		}
		if c, ok := s.X.(*ast.CallExpr); ok && x.src(c.Fun) == "copy" && len(c.Args) == 2 { // copy(v, s) into a variable that shares its array with nothing
			if id, isId := c.Args[0].(*ast.Ident); isId {
				if _, isB := x.info.ObjectOf(c.Fun.(*ast.Ident)).(*types.Builtin); isB {
					lv := x.lvalue(id)
					x.fresh(lv, s)
					n := x.varName(id)
					return xGuarded(g, "let "+n+" := go_copy "+n+" "+x.expr(c.Args[1], &g)+" in"+xInd(d)+rest())
				}
			}
			x.fail(s, "copy is in the subset only as the statement copy(v, s) on a variable v")
		}
		if c, ok := s.X.(*ast.CallExpr); ok && x.src(c.Fun) == "sort.Slice" && len(c.Args) == 2 {
			return x.sortSlice(s, c, rest, d)
		}
		if c, ok := s.X.(*ast.CallExpr); ok { // panic(...)
			if id, ok := c.Fun.(*ast.Ident); ok && id.Name == "panic" {
				if _, isB := x.info.ObjectOf(id).(*types.Builtin); isB {
					return "Panic"
				}
			}
		}
		x.fail(s, "expression statement %s is outside the subset", x.src(s))
	case *ast.GoStmt: // go F(args) where F hands its argument over (a declared writer primitive): the hand-over is what is modelled
		var g xGuards
		if callee, prim, ok := x.writerCall(s.Call, &g); ok && prim != "" {
			return x.effect(callee, prim, "_", g, rest(), d)
		}
		x.fail(s, "go statements are outside the subset")
	case *ast.IncDecStmt:
		if f, ok := x.stField(s.X); ok && f.Set != "" {
			op := " + 1"
			if s.Tok == token.DEC {
				op = " - 1"
			}
			return "let rd := " + f.Set + " rd " + x.wrap(s, x.typeOf(s.X), "(("+f.Get+" rd)"+op+")") + " in" + xInd(d) + rest()
		}
		lv := x.lvalue(s.X)
		n, ok := x.names[lv]
		if lv == nil || !ok {
			x.fail(s, "%s: not a variable of the translated code", x.src(s))
		}
		op := " + 1"
		if s.Tok == token.DEC {
			op = " - 1"
		}
		return "let " + n + " := " + x.wrap(s, x.typeOf(s.X), "("+n+op+")") + " in" + xInd(d) + rest()
	case *ast.AssignStmt:
		return x.assign(s, rest, d)
	case *ast.IfStmt:
		if s.Init != nil {
			return x.stmt(s.Init, func() string { c := *s; c.Init = nil; return x.stmt(&c, rest, d) }, d)
		}
		var g xGuards
		c := x.expr(s.Cond, &g)
		var els []ast.Stmt
		if s.Else != nil {
			els = []ast.Stmt{s.Else}
		}
		thn := s.Body.List
		vs := x.assigned(append(append([]ast.Stmt{}, thn...), els...))
		if in, ok := xNegated(c); ok { // normalisation: `if !c {A} else {B}` is emitted as `if c {B} else {A}`
			c, thn, els = in, els, thn
		}
		if len(vs) == 0 && x.unit.Writer == nil && x.unit.State == nil && !(xFalls(thn) && xFalls(els)) {
			// at most one branch continues: no merge needed, the continuation goes into that branch
			k := rest()
			return xGuarded(g, "if "+c+xInd(d)+"then "+x.block(thn, k, d+1)+xInd(d)+"else "+x.block(els, k, d+1))
		}
		term, _, bind := x.state(s, vs)
		return xGuarded(g, "bindc (if "+c+xInd(d+1)+"then "+x.block(thn, "Next "+term, d+2)+
			xInd(d+1)+"else "+x.block(els, "Next "+term, d+2)+")"+xInd(d)+"("+bind+xInd(d)+rest()+")")
	case *ast.SelectStmt:
		return x.selectStmt(s, rest, d)
	case *ast.SwitchStmt:
		return x.switchStmt(s, rest, d)
	case *ast.RangeStmt:
		return x.rangeStmt(s, rest, d)
	case *ast.ForStmt:
		return x.forStmt(s, rest, d)
	}
	x.fail(s, "statement %T is outside the subset", s)
	return ""
}

// selectStmt (writer mode): every communication the select offers is an emission - a send `ch <- v` is the primitive
// declared under the name "chan<-", a receive `<-f(args)` the primitive declared for f - and which clause runs is the
// environment's choice: the oracle declared under the name "select" (index of the clause; any other value: the last one).
func (x *xl) selectStmt(s *ast.SelectStmt, rest func() string, d int) string {
	sel, ok := x.unit.Oracles["select"]
	if !ok || x.unit.Writer == nil {
		x.fail(s, "select is in the subset only in writer mode with the choice declared as the oracle \"select\"")
	}
	var g xGuards
	var emits []string
	var bodies [][]ast.Stmt
	var all []ast.Stmt
	for _, c := range s.Body.List {
		cc := c.(*ast.CommClause)
		switch comm := cc.Comm.(type) {
		case nil: // default
		case *ast.SendStmt:
			p, found := x.unit.Writer.Prims["chan<-"]
			if !found {
				x.fail(comm, "send in a select: no primitive \"chan<-\" declared")
			}
			emits = append(emits, "("+p.Coq+")")
		case *ast.ExprStmt:
			u, isU := comm.X.(*ast.UnaryExpr)
			if !isU || u.Op != token.ARROW {
				x.fail(comm, "communication %s in a select is outside the subset", x.src(comm))
			}
			_, prim, isPrim := x.writerCall(u.X, &g)
			if !isPrim || prim == "" {
				x.fail(comm, "receive from %s: not a declared primitive", x.src(u.X))
			}
			emits = append(emits, prim)
		default:
			x.fail(cc, "communication %s in a select is outside the subset", x.src(cc.Comm))
		}
		bodies = append(bodies, cc.Body)
		all = append(all, cc.Body...)
	}
	if len(bodies) == 0 {
		x.fail(s, "empty select")
	}
	vs := x.assigned(all)
	term, _, bind := x.state(s, vs)
	t := x.block(bodies[len(bodies)-1], "Next "+term, d+2)
	for i := len(bodies) - 2; i >= 0; i-- {
		t = fmt.Sprintf("if (%s =? %d)%sthen %s%selse %s", sel.Name, i, xInd(d+1), x.block(bodies[i], "Next "+term, d+2), xInd(d+1), t)
	}
	em := ""
	if len(emits) > 0 {
		em = "let out := out ++ " + strings.Join(emits, " ++ ") + " in" + xInd(d)
	}
	return xGuarded(g, em+"bindc ("+t+")"+xInd(d)+"("+bind+xInd(d)+rest()+")")
}

func (x *xl) assign(s *ast.AssignStmt, rest func() string, d int) string {
	var g xGuards
	// writer call: err = CALL, err := CALL, _ = CALL, and _, err = CALL for a primitive that also returns a count
	if len(s.Lhs) == 2 && len(s.Rhs) == 1 && x.outside(s.Lhs[0]) && x.outside(s.Lhs[1]) { // a, b = PRIM(..) with results outside the subset: only the emission
		if _, prim, ok := x.writerCall(s.Rhs[0], &g); ok && prim != "" {
			return x.effect("", prim, "_", g, rest(), d)
		}
	}
	if (len(s.Lhs) == 1 || (len(s.Lhs) == 2 && x.src(s.Lhs[0]) == "_")) && len(s.Rhs) == 1 {
		if callee, prim, ok := x.writerCall(s.Rhs[0], &g); ok {
			if len(s.Lhs) == 2 && prim == "" {
				x.fail(s, "two results from a translated writer method")
			}
			id, isId := s.Lhs[len(s.Lhs)-1].(*ast.Ident)
			if !isId {
				x.fail(s, "result of a writer call assigned to %s", x.src(s.Lhs[0]))
			}
			n := "_"
			if id.Name != "_" {
				n = x.declare(x.info.ObjectOf(id))
			}
			return x.effect(callee, prim, n, g, rest(), d)
		}
	}
	if len(s.Rhs) == 1 && len(s.Lhs) == 1 && x.recv != nil { // v := atomic.AddUint64(&recv.f, d): f += d atomically, v is the new value
		if c, ok := s.Rhs[0].(*ast.CallExpr); ok && len(c.Args) == 2 {
			if f := x.atomicField(c); f != nil {
				fn := x.names[f]
				dv := x.expr(c.Args[1], &g)
				lv := x.lvalue(s.Lhs[0])
				vn := "_"
				if lv != nil {
					vn = x.declare(lv)
				}
				return xGuarded(g, "let "+fn+" := "+x.wrap(c, f.Type(), "("+fn+" + "+dv+")")+" in let "+vn+" := "+fn+" in"+xInd(d)+rest())
			}
		}
	}
	if len(s.Rhs) == 1 {
		if inv := x.stCall(s.Rhs[0], &g); inv != nil {
			return x.stBind(s, inv, s.Lhs, s.Tok == token.DEFINE, g, rest, d)
		}
	}
	if len(s.Lhs) == 1 && s.Tok == token.ASSIGN {
		if f, ok := x.stField(s.Lhs[0]); ok && f.Set != "" { // a receiver field kept in the state
			v := x.expr(s.Rhs[0], &g)
			return xGuarded(g, "let rd := "+f.Set+" rd "+v+" in"+xInd(d)+rest())
		}
	}
	if len(s.Rhs) == 1 && len(s.Lhs) == 2 && s.Tok == token.DEFINE { // v, ok := e.(T) with the test e.(T) declared as an oracle (bool): ok is bound, v is not a value of the subset
		ta := s.Rhs[0]
		_, isTA := ta.(*ast.TypeAssertExpr)
		if _, isO := x.unit.Oracles[x.src(ta)]; isTA || isO { // also v, ok := f() with f() an oracle and v outside the subset
			if !isO {
				x.fail(s, "type assertion %s (only as a declared oracle)", x.src(ta))
			}
			okv := x.lvalue(s.Lhs[1])
			if okv == nil {
				x.fail(s, "type assertion without the ok result")
			}
			v := x.expr(ta, &g)
			return xGuarded(g, "let "+x.declare(okv)+" := "+v+" in"+xInd(d)+rest())
		}
	}
	if len(s.Rhs) == 1 && len(s.Lhs) > 1 { // a, b := F(args) for a declared pure function F
		if c, ok := s.Rhs[0].(*ast.CallExpr); ok {
			if _, isF := x.unit.Funcs[x.src(c.Fun)]; isF {
				v := x.call(c, &g)
				var ns []string
				for _, l := range s.Lhs {
					lv := x.lvalue(l)
					switch {
					case lv == nil:
						ns = append(ns, "_")
					case s.Tok == token.DEFINE:
						ns = append(ns, x.declare(lv))
					default:
						n, ok := x.names[lv]
						if !ok {
							x.fail(l, "%s is not a variable of the translated code", x.src(l))
						}
						ns = append(ns, n)
					}
				}
				return xGuarded(g, "let '("+strings.Join(ns, ", ")+") := "+v+" in"+xInd(d)+rest())
			}
		}
	}
	if len(s.Lhs) != len(s.Rhs) {
		x.fail(s, "assignment from a multi-valued expression is outside the subset")
	}
	if len(s.Lhs) == 1 && s.Tok == token.ASSIGN { // v = append(v, e...)
		if c, ok := s.Rhs[0].(*ast.CallExpr); ok {
			if id, ok := c.Fun.(*ast.Ident); ok && id.Name == "append" {
				if _, isB := x.info.ObjectOf(id).(*types.Builtin); isB {
					lv := x.lvalue(s.Lhs[0])
					a0, isId := c.Args[0].(*ast.Ident)
					if lv == nil || !isId || x.info.ObjectOf(a0) != lv {
						x.fail(s, "append is in the subset only as  v = append(v, e...)  on one variable")
					}
					x.fresh(lv, s)
					n := x.varName(a0)
					if c.Ellipsis.IsValid() { // v = append(v, s...): the elements of s are copied
						if len(c.Args) != 2 {
							x.fail(s, "append(v, s...) with more arguments")
						}
						return xGuarded(g, "let "+n+" := "+n+" ++ "+x.expr(c.Args[1], &g)+" in"+xInd(d)+rest())
					}
					var es []string
					for _, a := range c.Args[1:] {
						el := x.expr(a, &g)
						if xIsBytes(lv.Type()) {
							el = "(Z.to_N " + el + ")"
						}
						es = append(es, el)
					}
					return xGuarded(g, "let "+n+" := "+n+" ++ ["+strings.Join(es, "; ")+"] in"+xInd(d)+rest())
				}
			}
		}
	}
	var ns, vs []string
	for i, l := range s.Lhs {
		lv := x.lvalue(l)
		var v string
		switch s.Tok {
		case token.ASSIGN, token.DEFINE:
			if x.info.Types[s.Rhs[i]].IsNil() && lv != nil { // nil is the zero value of the variable's type
				v = x.zero(s, lv.Type())
			} else {
				v = x.expr(s.Rhs[i], &g)
			}
		default: // x op= e  is  x = x op e  at the type of x
			op, ok := map[token.Token]token.Token{token.ADD_ASSIGN: token.ADD, token.SUB_ASSIGN: token.SUB, token.MUL_ASSIGN: token.MUL,
				token.QUO_ASSIGN: token.QUO, token.REM_ASSIGN: token.REM, token.AND_ASSIGN: token.AND, token.OR_ASSIGN: token.OR,
				token.XOR_ASSIGN: token.XOR, token.SHL_ASSIGN: token.SHL, token.SHR_ASSIGN: token.SHR, token.AND_NOT_ASSIGN: token.AND_NOT}[s.Tok]
			if !ok {
				x.fail(s, "assignment operator %s", s.Tok)
			}
			be := &ast.BinaryExpr{X: l, OpPos: s.TokPos, Op: op, Y: s.Rhs[i]}
			x.info.Types[be] = types.TypeAndValue{Type: x.typeOf(l)}
			v = x.binary(be, &g)
		}
		if sv, f := x.structVar(l); sv != nil && lv != nil { // v.F = e: the record with that field replaced
			nm := sv.Type().(*types.Named)
			r := x.record(l, nm)
			vn, ok := x.names[sv]
			if !ok || !x.translatable(f.Type()) {
				x.fail(l, "%s is not a field of a variable of the translated code", x.src(l))
			}
			var fs []string
			for _, ff := range x.recFields(nm.Underlying().(*types.Struct)) {
				if ff == f {
					fs = append(fs, r+"_"+ff.Name()+" := "+v)
				} else {
					fs = append(fs, r+"_"+ff.Name()+" := "+r+"_"+ff.Name()+" "+vn)
				}
			}
			v = "{| " + strings.Join(fs, "; ") + " |}"
		}
		if ie, ok := l.(*ast.IndexExpr); ok && lv != nil { // m[k] = v
			set := "go_map_set"
			if m, isMap := x.typeOf(ie.X).Underlying().(*types.Map); isMap && xIsBytes(m.Key()) {
				set = "go_smap_put"
			}
			v = "(" + set + " " + x.mapVar(ie) + " " + x.expr(ie.Index, &g) + " " + v + ")"
		}
		if lv == nil {
			ns = append(ns, "_")
		} else if s.Tok == token.DEFINE {
			ns = append(ns, x.declare(lv))
		} else if n, ok := x.names[lv]; ok {
			ns = append(ns, n)
		} else {
			x.fail(l, "%s is not a local variable, parameter or declared global of the translated code", x.src(l))
		}
		vs = append(vs, v)
	}
	if len(ns) == 1 {
		return xGuarded(g, "let "+ns[0]+" := "+vs[0]+" in"+xInd(d)+rest())
	}
	// all right-hand sides are evaluated before any variable is assigned
	return xGuarded(g, "let '("+strings.Join(ns, ", ")+") := ("+strings.Join(vs, ", ")+") in"+xInd(d)+rest())
}

// switch tag { case c1, c2: ...; default: ... } without fallthrough/break: an if-chain on the tag
func (x *xl) switchStmt(s *ast.SwitchStmt, rest func() string, d int) string {
	if s.Init != nil {
		return x.stmt(s.Init, func() string { c := *s; c.Init = nil; return x.stmt(&c, rest, d) }, d)
	}
	if s.Tag == nil {
		x.fail(s, "switch without a tag is outside the subset")
	}
	var g xGuards
	tag := x.expr(s.Tag, &g)
	tt := x.typeOf(s.Tag)
	if _, _, ok := xIntType(tt); !ok {
		x.fail(s, "switch on a value of type %s is outside the subset", tt)
	}
	x.tmp++
	tv := fmt.Sprintf("tag__%d", x.tmp)
	var all []ast.Stmt
	var def []ast.Stmt
	for _, c := range s.Body.List {
		cc := c.(*ast.CaseClause)
		all = append(all, cc.Body...)
		ast.Inspect(cc, func(n ast.Node) bool {
			if b, ok := n.(*ast.BranchStmt); ok {
				x.fail(b, "%s inside a switch is outside the subset", b.Tok)
			}
			return true
		})
	}
	vs := x.assigned(all)
	term, _, bind := x.state(s, vs)
	chain := ""
	closep := ""
	for _, c := range s.Body.List {
		cc := c.(*ast.CaseClause)
		if cc.List == nil {
			def = cc.Body
			if def == nil {
				def = []ast.Stmt{}
			}
			continue
		}
		cond := ""
		for _, ce := range cc.List {
			tvv := x.info.Types[ce]
			if tvv.Value == nil || tvv.Value.Kind() != constant.Int {
				x.fail(ce, "case %s is not an integer constant", x.src(ce))
			}
			t := "(" + tv + " =? " + xLit(tvv.Value) + ")"
			if cond == "" {
				cond = t
			} else {
				cond = "(orb " + cond + " " + t + ")"
			}
		}
		chain += "if " + cond + " then " + x.block(cc.Body, "Next "+term, d+2) + xInd(d+1) + "else ("
		closep += ")"
	}
	chain += x.block(def, "Next "+term, d+2) + closep
	return xGuarded(g, "let "+tv+" := "+tag+" in"+xInd(d)+"bindc ("+chain+")"+xInd(d)+"("+bind+xInd(d)+rest()+")")
}

func (x *xl) noBranch(body *ast.BlockStmt) {
	ast.Inspect(body, func(n ast.Node) bool {
		if b, ok := n.(*ast.BranchStmt); ok {
			x.fail(b, "%s is outside the subset", b.Tok)
		}
		return true
	})
}

// for k, v := range l { body }
func (x *xl) rangeStmt(s *ast.RangeStmt, rest func() string, d int) string {
	t := x.typeOf(s.X)
	sl, ok := t.Underlying().(*types.Slice)
	if !ok || s.Tok != token.DEFINE {
		x.fail(s, "range over %s (or with '=') is outside the subset", t)
	}
	x.noBranch(s.Body)
	var g xGuards
	l := x.expr(s.X, &g)
	kn, vn := "_", "_"
	if id, ok := s.Key.(*ast.Ident); ok && id.Name != "_" {
		kn = x.declare(x.info.ObjectOf(id))
	}
	if id, ok := s.Value.(*ast.Ident); ok && id.Name != "_" {
		vn = x.declare(x.info.ObjectOf(id))
	}
	et := x.coqType(s, sl.Elem())
	if xIsBytes(t) {
		x.fail(s, "range over bytes is outside the subset")
	}
	vs := x.assigned(s.Body.List)
	term, _, bind := x.state(s, vs)
	x.loops++
	defer func() { x.loops-- }()
	return xGuarded(g, "bindc (go_range "+l+" (fun ("+kn+" : Z) ("+vn+" : "+et+") => "+bind+xInd(d+1)+
		x.block(s.Body.List, "Next "+term, d+1)+") "+term+")"+xInd(d)+"("+bind+xInd(d)+rest()+")")
}

// for i := a; i < n; i++ { body } where the body assigns neither i nor a variable n mentions: a counted fold
func (x *xl) forStmt(s *ast.ForStmt, rest func() string, d int) string {
	if s.Init == nil && s.Cond == nil && s.Post == nil {
		return x.loopStmt(s, rest, d)
	}
	bad := func() {
		x.fail(s, "only loops of the form  for i := a; i < n; i++ { ... }  (and range loops over slices) are in the subset")
	}
	init, ok := s.Init.(*ast.AssignStmt)
	if ok && init.Tok == token.DEFINE && len(init.Lhs) == 2 && len(init.Rhs) == 2 { // for i, e := a, n; i < e; i++: e is set once, before the loop
		if ci, isB := s.Cond.(*ast.BinaryExpr); isB {
			bound := ci.Y // the bound is the operand that is not the counter (i < e, e > i)
			if xi, isId := ci.X.(*ast.Ident); isId && x.info.ObjectOf(xi) == x.info.ObjectOf(init.Lhs[1].(*ast.Ident)) {
				bound = ci.X
			}
			if yi, isId := bound.(*ast.Ident); isId && x.info.ObjectOf(yi) == x.info.ObjectOf(init.Lhs[1].(*ast.Ident)) && x.src(init.Lhs[0]) != x.src(init.Lhs[1]) {
				uses := false // the bound's value must not mention the counter (both are evaluated before either is set)
				ast.Inspect(init.Rhs[1], func(n ast.Node) bool {
					if id, isId := n.(*ast.Ident); isId && id.Name == x.src(init.Lhs[0]) {
						uses = true
					}
					return true
				})
				if !uses {
					first := &ast.AssignStmt{Lhs: init.Lhs[1:], TokPos: init.TokPos, Tok: token.DEFINE, Rhs: init.Rhs[1:]}
					c := *s
					c.Init = &ast.AssignStmt{Lhs: init.Lhs[:1], TokPos: init.TokPos, Tok: token.DEFINE, Rhs: init.Rhs[:1]}
					return x.stmt(first, func() string { return x.forStmt(&c, rest, d) }, d)
				}
			}
		}
	}
	if !ok || init.Tok != token.DEFINE || len(init.Lhs) != 1 || len(init.Rhs) != 1 {
		bad()
	}
	iv := x.lvalue(init.Lhs[0])
	cond, ok := s.Cond.(*ast.BinaryExpr)
	if ok { // normalisation: n > i is i < n, n <= i is i >= n
		if yi, isId := cond.Y.(*ast.Ident); isId && iv != nil && x.info.ObjectOf(yi) == types.Object(iv) {
			flip := map[token.Token]token.Token{token.GTR: token.LSS, token.LEQ: token.GEQ}
			if o, isF := flip[cond.Op]; isF {
				cond = &ast.BinaryExpr{X: cond.Y, OpPos: cond.OpPos, Op: o, Y: cond.X}
			}
		}
	}
	post, ok2 := s.Post.(*ast.IncDecStmt)
	if as, isAs := s.Post.(*ast.AssignStmt); isAs && len(as.Lhs) == 1 && len(as.Rhs) == 1 { // normalisation: i += 1 is i++, i -= 1 is i--
		if tv := x.info.Types[as.Rhs[0]]; tv.Value != nil && tv.Value.ExactString() == "1" && (as.Tok == token.ADD_ASSIGN || as.Tok == token.SUB_ASSIGN) {
			tok := token.INC
			if as.Tok == token.SUB_ASSIGN {
				tok = token.DEC
			}
			post, ok2 = &ast.IncDecStmt{X: as.Lhs[0], TokPos: as.TokPos, Tok: tok}, true
		}
	}
	down := ok && ok2 && cond.Op == token.GEQ && post.Tok == token.DEC // for i := a; i >= n; i-- : i = a, a-1, .., n
	if iv == nil || !ok || !ok2 || !(down || (cond.Op == token.LSS && post.Tok == token.INC)) {
		bad()
	}
	if ci, ok := cond.X.(*ast.Ident); !ok || x.info.ObjectOf(ci) != iv {
		bad()
	}
	if pi, ok := post.X.(*ast.Ident); !ok || x.info.ObjectOf(pi) != iv {
		bad()
	}
	if _, _, isInt := xIntType(iv.Type()); !isInt {
		bad()
	}
	x.noBranch(s.Body)
	vs := x.assigned(s.Body.List)
	frozen := map[types.Object]bool{iv: true} // what the bound mentions (and i) must not be assigned by the body
	ast.Inspect(cond.Y, func(n ast.Node) bool {
		if id, ok := n.(*ast.Ident); ok {
			frozen[x.info.ObjectOf(id)] = true
		}
		return true
	})
	ast.Inspect(s.Body, func(n ast.Node) bool {
		var ls []ast.Expr
		switch n := n.(type) {
		case *ast.AssignStmt:
			if n.Tok != token.DEFINE {
				ls = n.Lhs
			}
		case *ast.IncDecStmt:
			ls = []ast.Expr{n.X}
		}
		for _, l := range ls {
			if v := x.lvalue(l); v != nil && frozen[v] {
				x.fail(l, "the loop body assigns %s, which the loop counter or its bound depends on", v.Name())
			}
		}
		return true
	})
	var g xGuards
	a := x.expr(init.Rhs[0], &g)
	in := x.declare(iv)
	n := x.expr(cond.Y, &g)
	term, _, bind := x.state(s, vs)
	x.loops++
	defer func() { x.loops-- }()
	comb := "go_count"
	if down { // i-- at the least value of the type would wrap and the loop never end: the bound must be above it
		comb = "go_count_down"
		w, signed, _ := xIntType(iv.Type())
		if signed {
			g = append(g, "((-"+new(big.Int).Lsh(big.NewInt(1), uint(w-1)).String()+") <? "+n+")")
		} else {
			g = append(g, "(0 <? "+n+")")
		}
	}
	return xGuarded(g, "bindc ("+comb+" "+a+" "+n+" (fun ("+in+" : Z) => "+bind+xInd(d+1)+
		x.block(s.Body.List, "Next "+term, d+1)+") "+term+")"+xInd(d)+"("+bind+xInd(d)+rest()+")")
}
