package main

// C12 — child process of one graceful-shutdown scenario: an in-process TarsGo server started through the
// public API, scripted raw TCP clients in the same process, the shutdown triggered by a signal to the
// process itself (the way an operator stops a server), and a totally ordered event log.

import (
	"bytes"
	"context"
	"encoding/binary"
	"encoding/json"
	"fmt"
	"io"
	"net"
	"os"
	"path/filepath"
	"runtime"
	"strconv"
	"strings"
	"sync"
	"sync/atomic"
	"syscall"
	"time"

	"github.com/TarsCloud/TarsGo/tars"
	"github.com/TarsCloud/TarsGo/tars/protocol/codec"
	"github.com/TarsCloud/TarsGo/tars/protocol/res/requestf"
	"github.com/TarsCloud/TarsGo/tars/transport"
	"github.com/TarsCloud/TarsGo/tars/util/rogger"
)

const c12Obj = "Verif.C12Server.Obj"

// c12ConnScn scripts one client connection.
type c12ConnScn struct {
	Pre         []int `json:"pre"`       // handler durations (ms; -1 = never returns) of the requests sent before the trigger
	Pipelined   bool  `json:"pipelined"` // all Pre requests in one write
	Post        []int `json:"post"`      // requests sent PostDelayMs after the trigger
	PostDelayMs int   `json:"post_delay_ms"`
	Half        bool  `json:"half"`                    // after Pre: the first bytes of one more request, never completed
	Bulk        int   `json:"bulk,omitempty"`          // every response of this connection carries this many extra bytes
	ReadDelayMs int   `json:"read_delay_ms,omitempty"` // the client starts reading only this long after the trigger (-1: never)
	Fresh       bool  `json:"fresh,omitempty"`         // opened (and its Pre sent) only after the scenario's quiet period, right before the trigger
	Faulted     bool  `json:"faulted,omitempty"`       // (with Fresh) dialled while Accept fails with EMFILE (RLIMIT_NOFILE lowered for 40 ms): a transient accept error
	Abort       bool  `json:"abort,omitempty"`         // once the server has read Pre, the client resets the connection (SO_LINGER 0 -> RST): every later write of the server to it fails
}

type c12Scn struct {
	Name            string       `json:"name"`
	Pool            int          `json:"pool"`                        // maxroutine (0 = one goroutine per request)
	QueueCap        int          `json:"queue_cap"`                   // 0 = framework default
	GraceMs         int          `json:"grace_ms"`                    // gracedowntimeout
	Signal          string       `json:"signal"`                      // TERM | INT | USR2 | DIRECT (TarsServer.Shutdown called with a context of GraceMs)
	QuietMs         int          `json:"quiet_ms,omitempty"`          // the non-fresh connections are left quiet this long before the trigger
	ReadTimeoutMs   int          `json:"read_timeout_ms,omitempty"`   // server readtimeout (0 = framework default: none)
	Race            string       `json:"race,omitempty"`              // "read-then-count": connection 0's receive loop is held between Read and numInvoke++ (yield hook) while the poller closes it
	HandleTimeoutMs int          `json:"handle_timeout_ms,omitempty"` // server handletimeout (0 = none): bounds a handler's run time
	SmallBuf        bool         `json:"small_buf,omitempty"`         // 64 KB server send buffer: a multi-megabyte response blocks in Write until the client reads
	Phase           string       `json:"phase"`                       // "read": trigger once the server has read every Pre request; "sent": right after the writes
	Late            bool         `json:"late"`                        // open one more connection after the listener went down and send a request on it
	Conns           []c12ConnScn `json:"conns"`
}

// c12Event is one entry of the totally ordered log (Seq = position).
type c12Event struct {
	T int64  `json:"t"` // ms since the child started (never compared with the model)
	K string `json:"k"` // connect send readall start end resp notify eof trigger listendown returned late
	C int    `json:"c"`
	R int    `json:"r"`
}

type c12Obs struct {
	Scn        c12Scn     `json:"scn"`
	Events     []c12Event `json:"events"`
	Err        string     `json:"err"`          // infrastructure problem (port clash …): the scenario is retried
	TriggerT   int64      `json:"trigger_t"`    // ms
	ReturnedT  int64      `json:"returned_t"`   // ms; -1 = tars.Run had not returned when the child gave up
	FinalInvk  []int      `json:"final_invoke"` // per connection: numInvoke 300 ms after Run returned (-1: connection no longer in the table)
	FinalQueue int        `json:"final_queue"`
	// after a transient accept error was injected the server stopped accepting / tars.Run returned although no shutdown
	// had been requested
	StoppedEarly string `json:"stopped_early,omitempty"`
}

type c12Logger struct {
	mu sync.Mutex
	t0 time.Time
	ev []c12Event
}

func (l *c12Logger) add(k string, c, r int) int64 {
	l.mu.Lock()
	t := time.Since(l.t0).Milliseconds()
	l.ev = append(l.ev, c12Event{T: t, K: k, C: c, R: r})
	l.mu.Unlock()
	return t
}

// c12Servant is dispatcher and implementation at once: the request payload names connection, request and duration.
type c12Servant struct {
	log     *c12Logger
	forever chan struct{}
}

func (s *c12Servant) Dispatch(ctx context.Context, _ interface{}, req *requestf.RequestPacket, rsp *requestf.ResponsePacket, _ bool) error {
	c, r, d, bulk := c12DecodePayload(req.SBuffer)
	s.log.add("start", c, r)
	if d < 0 {
		<-s.forever
	} else if d > 0 {
		time.Sleep(time.Duration(d) * time.Millisecond)
	}
	s.log.add("end", c, r)
	buf := req.SBuffer
	if bulk > 0 {
		buf = append(append([]int8{}, buf...), make([]int8, bulk)...)
	}
	*rsp = requestf.ResponsePacket{IVersion: req.IVersion, CPacketType: req.CPacketType, IRequestId: req.IRequestId, SBuffer: buf}
	return nil
}

func c12Payload(c, r, d, bulk int) []int8 {
	b := make([]byte, 16)
	binary.BigEndian.PutUint32(b[0:], uint32(c))
	binary.BigEndian.PutUint32(b[4:], uint32(r))
	binary.BigEndian.PutUint32(b[8:], uint32(int32(d)))
	binary.BigEndian.PutUint32(b[12:], uint32(bulk))
	o := make([]int8, 16)
	for i := range b {
		o[i] = int8(b[i])
	}
	return o
}

func c12DecodePayload(p []int8) (int, int, int, int) {
	if len(p) != 16 {
		return -1, -1, 0, 0
	}
	b := make([]byte, 16)
	for i := range p {
		b[i] = byte(p[i])
	}
	return int(binary.BigEndian.Uint32(b[0:])), int(binary.BigEndian.Uint32(b[4:])), int(int32(binary.BigEndian.Uint32(b[8:]))), int(binary.BigEndian.Uint32(b[12:]))
}

func c12ReqID(c, r int) int32 { return int32(c*1000 + r + 1) }

func c12Frame(c, r, d, bulk int) []byte {
	req := requestf.RequestPacket{IVersion: 1, CPacketType: 0, IRequestId: c12ReqID(c, r), SServantName: c12Obj, SFuncName: "op",
		SBuffer: c12Payload(c, r, d, bulk), ITimeout: 0, Context: map[string]string{}, Status: map[string]string{}}
	os := codec.NewBuffer()
	req.WriteTo(os)
	bs := os.ToBytes()
	var sb bytes.Buffer
	sb.Write(make([]byte, 4))
	sb.Write(bs)
	binary.BigEndian.PutUint32(sb.Bytes(), uint32(sb.Len()))
	return sb.Bytes()
}

func c12FreePort() int {
	l, err := net.Listen("tcp", "127.0.0.1:0")
	if err != nil {
		return 0
	}
	defer l.Close()
	return l.Addr().(*net.TCPAddr).Port
}

// c12Reader parses the server's packets on one client connection into resp / notify / eof events.
func c12Reader(log *c12Logger, ci int, conn net.Conn, resp *int32, done chan struct{}, gate <-chan struct{}, dead *int32) {
	defer close(done)
	if gate != nil {
		<-gate // a slow reader: nothing is read before the gate opens
	}
	hdr := make([]byte, 4)
	for {
		if _, err := io.ReadFull(conn, hdr); err != nil {
			if dead == nil || atomic.LoadInt32(dead) == 0 {
				log.add("eof", ci, 0) // (not when the client has reset the connection itself)
			}
			return
		}
		n := int(binary.BigEndian.Uint32(hdr))
		if n < 4 || n > 1<<26 {
			if dead == nil || atomic.LoadInt32(dead) == 0 {
				log.add("eof", ci, 0) // (not when the client has reset the connection itself)
			}
			return
		}
		body := make([]byte, n-4)
		if _, err := io.ReadFull(conn, body); err != nil {
			if dead == nil || atomic.LoadInt32(dead) == 0 {
				log.add("eof", ci, 0) // (not when the client has reset the connection itself)
			}
			return
		}
		var rp requestf.ResponsePacket
		if err := rp.ReadFrom(codec.NewReader(body)); err != nil {
			log.add("garbage", ci, 0)
			continue
		}
		if rp.IRequestId == 0 {
			if rp.SResultDesc == "_reconnect_" {
				log.add("notify", ci, 0)
			} else {
				log.add("garbage", ci, 0)
			}
			continue
		}
		id := int(rp.IRequestId) - 1
		atomic.AddInt32(resp, 1)
		log.add("resp", id/1000, id%1000)
	}
}

// c12SignalReady waits until the framework's signal goroutine (grace.GraceHandler, started asynchronously by
// tars.Run's main loop) has registered with os/signal and waits for a signal: a signal sent before that would
// take its default action and kill the process. Decided from the goroutine dump, not from timing.
func c12SignalReady(max time.Duration) bool {
	dl := time.Now().Add(max)
	buf := make([]byte, 1<<20)
	for {
		n := runtime.Stack(buf, true)
		for _, g := range strings.Split(string(buf[:n]), "\n\n") {
			if strings.Contains(g, "grace.GraceHandler") {
				if hdr, _, _ := strings.Cut(g, "\n"); strings.Contains(hdr, "[chan receive") {
					return true
				}
			}
		}
		if time.Now().After(dl) {
			return false
		}
		time.Sleep(2 * time.Millisecond)
	}
}

// c12FaultDial connects to the server while its Accept fails: RLIMIT_NOFILE is lowered to the smallest unused
// descriptor number for 40 ms, so accept4 returns EMFILE (a transient, non-timeout error) for the pending connection;
// then the limit is restored and the accept loop is expected to take the connection. seen reports that the connection
// was established but not in the server's table at the end of the window.
func c12FaultDial(port int, inTable func(key string) bool) (net.Conn, bool, error) {
	fd, err := syscall.Socket(syscall.AF_INET, syscall.SOCK_STREAM|syscall.SOCK_NONBLOCK|syscall.SOCK_CLOEXEC, 0)
	if err != nil {
		return nil, false, err
	}
	g := 0
	for {
		if _, _, e := syscall.Syscall(syscall.SYS_FCNTL, uintptr(g), syscall.F_GETFD, 0); e == syscall.EBADF {
			break
		}
		g++
	}
	var old syscall.Rlimit
	if err := syscall.Getrlimit(syscall.RLIMIT_NOFILE, &old); err != nil {
		syscall.Close(fd)
		return nil, false, err
	}
	low := old
	low.Cur = uint64(g)
	if err := syscall.Setrlimit(syscall.RLIMIT_NOFILE, &low); err != nil {
		syscall.Close(fd)
		return nil, false, err
	}
	cerr := syscall.Connect(fd, &syscall.SockaddrInet4{Port: port, Addr: [4]byte{127, 0, 0, 1}})
	time.Sleep(40 * time.Millisecond)
	key := ""
	if sa, e := syscall.Getsockname(fd); e == nil {
		if a4, ok := sa.(*syscall.SockaddrInet4); ok {
			key = fmt.Sprintf("127.0.0.1:%d", a4.Port)
		}
	}
	seen := key != "" && !inTable(key)
	syscall.Setrlimit(syscall.RLIMIT_NOFILE, &old)
	if cerr != nil && cerr != syscall.EINPROGRESS {
		syscall.Close(fd)
		return nil, false, cerr
	}
	f := os.NewFile(uintptr(fd), "c12-faulted-conn")
	c, err := net.FileConn(f)
	f.Close()
	return c, seen, err
}

// c12SockQueues reads /proc/net/tcp: (local port, remote port) -> (tx_queue, rx_queue) of every IPv4 loopback socket.
func c12SockQueues() (map[[2]int][2]int, bool) {
	b, err := os.ReadFile("/proc/net/tcp")
	if err != nil {
		return nil, false
	}
	out := map[[2]int][2]int{}
	for _, ln := range strings.Split(string(b), "\n")[1:] {
		f := strings.Fields(ln)
		if len(f) < 5 {
			continue
		}
		la, ra, qs := strings.Split(f[1], ":"), strings.Split(f[2], ":"), strings.Split(f[4], ":")
		if len(la) != 2 || len(ra) != 2 || len(qs) != 2 || la[0] != "0100007F" || ra[0] != "0100007F" {
			continue
		}
		lp, e1 := strconv.ParseInt(la[1], 16, 32)
		rp, e2 := strconv.ParseInt(ra[1], 16, 32)
		tx, e3 := strconv.ParseInt(qs[0], 16, 64)
		rx, e4 := strconv.ParseInt(qs[1], 16, 64)
		if e1 != nil || e2 != nil || e3 != nil || e4 != nil {
			continue
		}
		out[[2]int{int(lp), int(rp)}] = [2]int{int(tx), int(rx)}
	}
	return out, len(out) > 0
}

func c12ChildMain(a Args) {
	var scn c12Scn
	b, err := os.ReadFile(a.Replay)
	if err != nil || json.Unmarshal(b, &scn) != nil {
		fatal("c12 child: scenario unreadable")
	}
	obs := c12Obs{Scn: scn, ReturnedT: -1, TriggerT: -1}
	log := &c12Logger{t0: time.Now()}
	// watchdog: the longest time this process was not scheduled. After a freeze of a second or more (overloaded or
	// paused machine) the run says nothing about the code: the two 500 ms tickers and the 100 ms read deadlines all
	// fire at once, in arbitrary order. Such a run is reported as an infrastructure problem and repeated.
	var maxGap int64
	go func() {
		last := time.Now()
		for {
			time.Sleep(20 * time.Millisecond)
			now := time.Now()
			if g := now.Sub(last).Milliseconds() - 20; g > atomic.LoadInt64(&maxGap) {
				atomic.StoreInt64(&maxGap, g)
			}
			last = now
		}
	}()
	var faultInjected int32
	finish := func(e string) {
		if atomic.LoadInt32(&faultInjected) == 1 && obs.TriggerT < 0 &&
			(strings.HasPrefix(e, "server stopped") || strings.HasPrefix(e, "connections not registered")) {
			obs.StoppedEarly, e = e, ""
		}
		if g := atomic.LoadInt64(&maxGap); e == "" && g >= 1000 {
			e = fmt.Sprintf("stalled: this process was not scheduled for %d ms", g)
		}
		obs.Err = e
		log.mu.Lock()
		obs.Events = append([]c12Event(nil), log.ev...)
		log.mu.Unlock()
		out, _ := json.Marshal(obs)
		os.WriteFile(filepath.Join(a.Out, "obs.json"), out, 0o644)
		os.Exit(0)
	}
	port := c12FreePort()
	if port == 0 {
		finish("no free port")
	}
	extra := ""
	if scn.QueueCap > 0 {
		extra = fmt.Sprintf("queuecap=%d\n", scn.QueueCap)
	}
	if scn.SmallBuf {
		extra += "tcpwritebuffer=65536\n"
	}
	if scn.HandleTimeoutMs > 0 {
		extra += fmt.Sprintf("handletimeout=%d\n", scn.HandleTimeoutMs)
	}
	if scn.ReadTimeoutMs > 0 {
		extra += fmt.Sprintf("readtimeout=%d\n", scn.ReadTimeoutMs)
	}
	cfg := fmt.Sprintf(`<tars>
<application>
<server>
app=Verif
server=C12Server
localip=127.0.0.1
logLevel=ERROR
maxroutine=%d
gracedowntimeout=%d
%s<Verif.C12Server.ObjAdapter>
endpoint=tcp -h 127.0.0.1 -p %d -t 60000
servant=%s
protocol=tars
maxconns=1000
threads=1
</Verif.C12Server.ObjAdapter>
</server>
<client>
</client>
</application>
</tars>
`, scn.Pool, scn.GraceMs, extra, port, c12Obj)
	cfgPath := filepath.Join(a.Out, "server.conf")
	if err := os.WriteFile(cfgPath, []byte(cfg), 0o644); err != nil {
		finish("config: " + err.Error())
	}
	tars.ServerConfigPath = cfgPath
	tars.GetServerConfig()
	rogger.SetLevel(rogger.OFF)
	sv := &c12Servant{log: log, forever: make(chan struct{})}
	tars.AddServantWithContext(sv, sv, c12Obj)
	returned := make(chan struct{})
	var returnedOnce sync.Once
	go func() {
		tars.Run()
		returnedOnce.Do(func() {
			obs.ReturnedT = log.add("returned", 0, 0)
			close(returned)
		})
	}()
	addr := fmt.Sprintf("127.0.0.1:%d", port)
	ts := tars.VerifC12Server(c12Obj)
	if ts == nil {
		finish("no transport server")
	}
	snapshot := func() (transport.VerifC12Snap, bool) { return transport.VerifC12Snapshot(ts) }

	direct := scn.Signal == "DIRECT" || scn.Signal == "EARLY"
	var trig time.Time
	if scn.Signal == "EARLY" {
		// the schedule in which Shutdown is preempted right after its first statement: isClosed = 1 is stored, the accept
		// loop still sits in Accept; the connection dialled now is the last one it takes (then it sees isClosed and leaves)
		for {
			if _, ok := snapshot(); ok {
				break
			}
			select {
			case <-returned:
				finish("server stopped before the scenario began (listen failed?)")
			default:
			}
			time.Sleep(2 * time.Millisecond)
		}
		obs.TriggerT = log.add("trigger", 0, 0)
		trig = time.Now()
		transport.VerifC12StoreClosed(ts)
	}
	// connect
	conns := make([]net.Conn, len(scn.Conns))
	keys := make([]string, len(scn.Conns))
	resp := make([]int32, len(scn.Conns))
	rdone := make([]chan struct{}, len(scn.Conns))
	gates := make([]chan struct{}, len(scn.Conns))
	aborted := make([]int32, len(scn.Conns))
	deadline := time.Now().Add(8 * time.Second)
	// connectAndSend dials the selected connections, waits until the server has them in its table and sends their
	// pre-trigger requests
	connectAndSend := func(sel func(i int) bool) {
		for i := range scn.Conns {
			if !sel(i) {
				continue
			}
			for {
				select {
				case <-returned:
					finish("server stopped before the scenario began (listen failed?)")
				default:
				}
				var c net.Conn
				var err error
				if scn.Conns[i].Faulted {
					var seen bool
					c, seen, err = c12FaultDial(port, func(key string) bool {
						sn, ok := snapshot()
						_, in := sn.Conns[key]
						return ok && in
					})
					if err == nil && !seen {
						finish("the accept fault was not injected (the connection was accepted inside the EMFILE window)")
					}
					if err == nil {
						atomic.StoreInt32(&faultInjected, 1)
					}
				} else {
					c, err = net.DialTimeout("tcp", addr, time.Second)
				}
				if err == nil {
					conns[i] = c
					keys[i] = c.LocalAddr().String()
					break
				}
				if time.Now().After(deadline) {
					finish("connect: " + err.Error())
				}
				time.Sleep(20 * time.Millisecond)
			}
			rdone[i] = make(chan struct{})
			if scn.Conns[i].ReadDelayMs != 0 {
				gates[i] = make(chan struct{})
			}
			var g <-chan struct{}
			if gates[i] != nil {
				g = gates[i]
			}
			go c12Reader(log, i, conns[i], &resp[i], rdone[i], g, &aborted[i])
		}
		// every connection is in the server's table before anything is sent (accept + Store are asynchronous)
		for {
			sn, ok := snapshot()
			n, want := 0, 0
			for i, k := range keys {
				if !sel(i) {
					continue
				}
				want++
				if ok {
					if _, in := sn.Conns[k]; in {
						n++
					}
				}
			}
			if n == want {
				break
			}
			select {
			case <-returned:
				finish("server stopped: tars.Run returned before any shutdown was requested")
			default:
			}
			if time.Now().After(deadline) || (scn.Signal == "EARLY" && ok && sn.ListenClosed >= 1 && n < want && time.Since(trig) > 700*time.Millisecond) {
				finish("connections not registered by the server")
			}
			time.Sleep(5 * time.Millisecond)
		}
		for i := range scn.Conns {
			if sel(i) {
				log.add("connect", i, 0)
			}
		}
		// pre-trigger requests
		for i, cs := range scn.Conns {
			if !sel(i) {
				continue
			}
			var all []byte
			for r, d := range cs.Pre {
				f := c12Frame(i, r, d, cs.Bulk)
				if cs.Pipelined {
					all = append(all, f...)
					continue
				}
				log.add("send", i, r)
				if _, err := conns[i].Write(f); err != nil {
					finish("write: " + err.Error())
				}
			}
			if cs.Pipelined && len(all) > 0 {
				for r := range cs.Pre {
					log.add("send", i, r)
				}
				if _, err := conns[i].Write(all); err != nil {
					finish("write: " + err.Error())
				}
			}
			if cs.Half {
				f := c12Frame(i, len(cs.Pre)+len(cs.Post), 0, 0)
				if _, err := conns[i].Write(f[:len(f)/2]); err != nil {
					finish("write: " + err.Error())
				}
			}
		}
	}
	connectAndSend(func(i int) bool { return !scn.Conns[i].Fresh })
	if scn.QuietMs > 0 {
		// the connections opened so far stay quiet for longer than the poller's idle threshold (their requests are
		// answered within milliseconds, then nothing is sent): their idle timestamp is stale when shutdown starts
		time.Sleep(time.Duration(scn.QuietMs) * time.Millisecond)
		deadline = time.Now().Add(8 * time.Second)
	}
	connectAndSend(func(i int) bool { return scn.Conns[i].Fresh })
	if scn.Phase == "read" {
		// The server has read everything a client wrote once the client's socket has nothing unacknowledged (tx_queue = 0)
		// and the server's socket has nothing unread (rx_queue = 0), on three consecutive samples (/proc/net/tcp): the
		// bytes are then in the receive loop, which dispatches every complete request it holds. This does not rely on
		// the server's own numInvoke counter. (Fallback where /proc/net/tcp cannot be read: numInvoke + responses.)
		stable := 0
		dl := time.Now().Add(10 * time.Second)
		for stable < 3 {
			okAll := true
			if q, ok := c12SockQueues(); ok {
				for i := range scn.Conns {
					cp := conns[i].LocalAddr().(*net.TCPAddr).Port
					cl, ok1 := q[[2]int{cp, port}]
					sv, ok2 := q[[2]int{port, cp}]
					if !ok1 || !ok2 || cl[0] != 0 || sv[1] != 0 {
						okAll = false
					}
				}
			} else {
				rs := make([]int32, len(resp))
				for i := range resp {
					rs[i] = atomic.LoadInt32(&resp[i])
				}
				sn, ok := snapshot()
				for i, cs := range scn.Conns {
					if !ok || int(sn.Conns[keys[i]])+int(rs[i]) < len(cs.Pre) {
						okAll = false
					}
				}
			}
			if okAll {
				stable++
			} else {
				stable = 0
			}
			if time.Now().After(dl) {
				finish("server did not read the scripted requests in 10 s")
			}
			time.Sleep(3 * time.Millisecond)
		}
		for i, cs := range scn.Conns {
			if len(cs.Pre) > 0 {
				log.add("readall", i, len(cs.Pre))
			}
		}
	}
	// trigger
	sig := syscall.SIGTERM
	switch scn.Signal {
	case "INT":
		sig = syscall.SIGINT
	case "USR2":
		sig = syscall.SIGUSR2
	}
	// clients that abort: reset the connection (RST) now that the server has read their requests
	nAbort := 0
	for i, cs := range scn.Conns {
		if cs.Abort {
			atomic.StoreInt32(&aborted[i], 1)
			if tc, ok := conns[i].(*net.TCPConn); ok {
				tc.SetLinger(0)
			}
			conns[i].Close()
			nAbort++
		}
	}
	if nAbort > 0 {
		time.Sleep(30 * time.Millisecond)
	}
	if !direct && !c12SignalReady(5*time.Second) {
		finish("the framework's signal handler was not installed within 5 s")
	}
	if scn.Signal != "EARLY" {
		obs.TriggerT = log.add("trigger", 0, 0)
		trig = time.Now()
	}
	if direct {
		// TarsServer.Shutdown itself, with a context of GraceMs
		go func() {
			ctx, cancel := context.WithTimeout(context.Background(), time.Duration(scn.GraceMs)*time.Millisecond)
			ts.Shutdown(ctx)
			cancel()
			returnedOnce.Do(func() {
				obs.ReturnedT = log.add("returned", 0, 0)
				close(returned)
			})
		}()
	} else {
		syscall.Kill(os.Getpid(), sig)
	}
	if scn.Race == "read-then-count" || scn.Race == "read-then-count-fresh" {
		// the schedule of Props/C12.v race_read_then_count: connection 0 (quiet, idle timestamp stale) sends one more
		// request; its receive loop is held after Read returned, before numInvoke++; the poller's first round sees
		// numInvoke = 0 and closes the connection; then the receive loop goes on
		r := len(scn.Conns[0].Pre)
		time.Sleep(100 * time.Millisecond)
		transport.VerifC12ArmBeforeCount()
		log.add("send", 0, r)
		if _, err := conns[0].Write(c12Frame(0, r, 0, 0)); err != nil {
			finish("write: " + err.Error())
		}
		select {
		case <-transport.VerifC12ReachedBeforeCount():
		case <-time.After(2 * time.Second):
			finish("race scenario: the receive loop did not reach the yield point")
		}
		hold := 3 * time.Second
		if scn.Race == "read-then-count-fresh" {
			// a connection used a moment ago: held across ONE poller round only (the first tick, 500 ms after the
			// trigger); its idle timestamp is fresh, the 2 s threshold keeps the poller from closing it
			hold = 700 * time.Millisecond
		}
		select {
		case <-rdone[0]: // the client saw EOF: the poller has closed the connection
		case <-time.After(hold):
		}
		transport.VerifC12ResumeBeforeCount()
	}
	for i, cs := range scn.Conns {
		if gates[i] != nil && cs.ReadDelayMs > 0 {
			go func(g chan struct{}, d int) {
				time.Sleep(time.Until(trig.Add(time.Duration(d) * time.Millisecond)))
				close(g)
			}(gates[i], cs.ReadDelayMs)
		}
	}

	var wg sync.WaitGroup
	for i, cs := range scn.Conns {
		if len(cs.Post) == 0 || cs.Abort {
			continue
		}
		wg.Add(1)
		go func(i int, cs c12ConnScn) {
			defer wg.Done()
			time.Sleep(time.Until(trig.Add(time.Duration(cs.PostDelayMs) * time.Millisecond)))
			for k, d := range cs.Post {
				r := len(cs.Pre) + k
				log.add("send", i, r)
				if _, err := conns[i].Write(c12Frame(i, r, d, cs.Bulk)); err != nil {
					log.add("sendfail", i, r)
					return
				}
			}
		}(i, cs)
	}
	// observe the listener going down; then (optionally) a late connection
	lateIdx := len(scn.Conns)
	var lateConn net.Conn
	go func() {
		for {
			sn, ok := snapshot()
			if ok && sn.ListenClosed >= 1 {
				log.add("listendown", 0, 0)
				break
			}
			select {
			case <-returned:
				return
			default:
			}
			time.Sleep(2 * time.Millisecond)
		}
		if scn.Late {
			c, err := net.DialTimeout("tcp", addr, 500*time.Millisecond)
			if err != nil {
				return // refused: nothing was accepted
			}
			lateConn = c
			log.add("late", lateIdx, 0)
			var n int32
			go c12Reader(log, lateIdx, c, &n, make(chan struct{}), nil, nil)
			log.add("send", lateIdx, 0)
			c.Write(c12Frame(lateIdx, 0, 0, 0))
		}
	}()
	select {
	case <-returned:
	case <-time.After(time.Duration(scn.GraceMs)*time.Millisecond + 6*time.Second):
	}
	wg.Wait()
	time.Sleep(300 * time.Millisecond)
	if obs.ReturnedT >= 0 && obs.ReturnedT-obs.TriggerT < int64(scn.GraceMs)-150 {
		// a drained return: every connection has been closed by the server; give the client readers up to 3 s more to
		// see their EOF (they only need to be scheduled)
		dl := time.After(2700 * time.Millisecond)
	waitReaders:
		for i := range scn.Conns {
			if scn.Conns[i].ReadDelayMs < 0 || scn.Conns[i].Abort {
				continue
			}
			select {
			case <-rdone[i]:
			case <-dl:
				break waitReaders
			}
		}
	}
	if sn, ok := snapshot(); ok {
		for i := range scn.Conns {
			if v, in := sn.Conns[keys[i]]; in {
				obs.FinalInvk = append(obs.FinalInvk, int(v))
			} else {
				obs.FinalInvk = append(obs.FinalInvk, -1)
			}
		}
		obs.FinalQueue = sn.Queued
	}
	log.add("exit", 0, 0)
	_ = lateConn
	finish("")
}

func init() {
	props["c12-child"] = func(a Args) { c12ChildMain(a) }
}
