#!/bin/bash
# Build the framework from files on disk only (offline): Go harness against /repo, regenerated Gen/*.v, full .vo build.
set -u
cd "$(dirname "$0")"
export GOFLAGS=-mod=mod GOPROXY=off GOSUMDB=off GOTOOLCHAIN=local
mkdir -p .build out/replays evidence
fail=0
# no axioms / admits / switched-off checks anywhere in the development (comments stripped; ./check repeats this per property)
if ! ./check --lint; then
  echo "setup: forbidden declaration found" >&2; fail=1
fi
# harness build (generated bindings + registry), regeneration of coq/Gen/*.v, coq_makefile
./check --build || { echo "setup: harness build / regeneration failed" >&2; fail=1; }
( cd coq && timeout 3000 make -j16 2>&1 | grep -v '^Closed under\|^COQC\|^COQDEP\|^make' )
( cd coq && make -q 2>/dev/null || timeout 3000 make -j16 >/dev/null 2>&1 ) || { echo "setup: coq build failed" >&2; fail=1; }
exit $fail
