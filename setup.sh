#!/bin/bash
# Build the framework from files on disk only (offline): Coq development (full .vo build), Go harness.
set -u
cd "$(dirname "$0")"
export GOFLAGS=-mod=mod GOPROXY=off GOSUMDB=off GOTOOLCHAIN=local
mkdir -p .build out/replays evidence
fail=0
# no axioms / admits / switched-off checks anywhere in the development (comments are stripped by ./check per property as well)
if grep -rnE '\b(Admitted|admit|Axiom|Parameter|Conjecture)\b|Unset Guard|bypass_check|Admit Obligations|type-in-type|impredicative-set' coq --include='*.v' | grep -v '^\S*:[0-9]*:\s*(\*' ; then
  echo "setup: forbidden declaration found" >&2; fail=1
fi
( cd harness && cp /repo/go.sum . && go build -tags verif -o ../.build/harness . ) || { echo "setup: harness build failed" >&2; fail=1; }
# regenerate Gen/*.v from the tree before the Coq build
for g in gen-consts:Gen/Consts.v gen-schemas:Gen/Schemas.v; do
  sub=${g%%:*}; tgt=${g##*:}
  if [ -e coq/Gen/.$sub ] && [ -x .build/harness ]; then
    .build/harness $sub > .build/$sub.tmp 2>/dev/null && { cmp -s .build/$sub.tmp coq/$tgt || cp .build/$sub.tmp coq/$tgt; }
  fi
done
( cd coq && coq_makefile -f _CoqProject -o Makefile >/dev/null && timeout 3000 make -j16 2>&1 | grep -v '^Closed under\|^COQC\|^COQDEP' ) 
( cd coq && make -q 2>/dev/null || timeout 3000 make -j16 >/dev/null 2>&1 ) || { echo "setup: coq build failed" >&2; fail=1; }
exit $fail
